#!/bin/bash
# usage: quick_seeded.sh <name> <patch.diff> <prop> [<prop>...]
# Runs the checks of the given properties against a scratch worktree of /repo
# with the patch applied (no demo / test-suite confirmation: see try_seeded.sh).
set -u
NAME=$1; PATCH=$2; shift 2
W=/tmp/sc/q_$NAME
rm -rf $W; mkdir -p /tmp/sc
git -C /repo worktree add -q --detach $W HEAD || exit 2
git -C $W apply $PATCH || exit 2
cd /verif
for P in "$@"; do
  VERIF_REPO=$W VERIF_BUILD_SUFFIX=.q_$NAME ./verif check $P > /tmp/sc/q_$NAME.$P.log 2>&1; C=$?
  echo "QUICK $NAME check_$P: exit $C; $(grep -c VIOLATION /tmp/sc/q_$NAME.$P.log) violation line(s)"
  grep "VIOLATION\|NO-VERDICT" /tmp/sc/q_$NAME.$P.log | cut -c1-260
  git -C /verif checkout -- evidence/$P.json 2>/dev/null
done
git -C /repo worktree remove --force $W
rm -rf /verif/build/*.q_$NAME
