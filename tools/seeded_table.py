#!/usr/bin/env python3
"""Prints the markdown table of seeded changes (DESIGN.md 11.7) from seeded/*/meta.json."""
import json, os, re
rows = []
for n in sorted(os.listdir("/verif/seeded")):
    p = os.path.join("/verif/seeded", n, "meta.json")
    if not os.path.exists(p):
        continue
    m = json.load(open(p))
    needs = re.sub(r"\s+", " ", m.get("needs_to_manifest", "")).replace("|", "/")
    cr = m.get("check_result", {})
    caught = ", ".join("`%s`" % c.strip() for c in cr.get("caught_by", []))[:260]
    if str(m.get("status", "")).startswith("superseded"):
        caught = (caught + "; " if caught else "") + "no longer breaks the property since the D11 repair (demonstration passes with the change): the check is rightly quiet"
    rows.append("| %s | %s | %s | %s |" % (n, m.get("breaks_property"), needs[:300], caught))
print("| seeded | property | what / what it needs | caught by |\n|---|---|---|---|")
print("\n".join(rows))
