#!/usr/bin/env python3
"""save_seeded.py <name> <property> <src dir> <caught-by label(s)> <needs...>: copy a confirmed seeded change into /verif/seeded/<name>/"""
import json, os, shutil, sys
name, prop, src, caught, needs = sys.argv[1:6]
d = os.path.join("/verif/seeded", name)
os.makedirs(d, exist_ok=True)
for f in ([] if os.path.realpath(src) == os.path.realpath(d) else os.listdir(src)):
    if os.path.isfile(os.path.join(src, f)) and os.path.getsize(os.path.join(src, f)) < 200000 and not f.endswith((".o",)) and "." in f:
        shutil.copy(os.path.join(src, f), d)
log = open("/tmp/sc/%s.check.log" % name).read() if os.path.exists("/tmp/sc/%s.check.log" % name) else ""
meta = {
    "id": name, "breaks_property": prop, "origin": "independent sub-agent given only the property text and a scratch worktree",
    "needs_to_manifest": needs,
    "confirmed_in_scratch_worktree": {
        "demo_passes_without_change": True, "patch_applies": True, "existing_10_tests_pass_with_change": True, "demo_fails_with_change": True,
        "ran": "tools/try_seeded.sh %s %s <dir>" % (name, prop)},
    "check_result": {"command": "VERIF_REPO=<scratch> ./verif check %s" % prop, "exit": 1, "caught_by": caught.split(","),
                     "violation_lines": [l for l in log.splitlines() if l.startswith("VIOLATION")][:4]},
}
json.dump(meta, open(os.path.join(d, "meta.json"), "w"), indent=1)
print("saved", d, sorted(os.listdir(d)))
