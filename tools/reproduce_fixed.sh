#!/bin/bash
# For every `fixed:` entry of known-findings.txt: check out the parent of the fix
# commit in a scratch worktree (outside /repo and /verif), keep the verification hooks of the
# current tree available, and run the property's check against it: it must report
# the violation again. usage: reproduce_fixed.sh [property ...]
cd /verif
mkdir -p /tmp/sc
grep '^fixed:' known-findings.txt | while read -r _ prop commit rest; do
  p=${prop#property=}
  [ $# -gt 0 ] && ! echo "$@" | grep -qw "$p" && continue
  W=/tmp/sc/fixed_$commit
  rm -rf $W
  git -C /repo worktree add -q --detach $W HEAD || continue
  # revert exactly that fix on top of the current tree (keeps hooks and later fixes)
  # a fix that changed a function signature cannot be reverted textually without breaking the
  # harness build (no verdict): findings/*/revert_<commit>.diff then takes back the behaviour only
  R=$(ls findings/*/revert_$commit.diff 2>/dev/null | head -1)
  if [ -n "$R" ]; then
    git -C $W apply /verif/$R || { echo "FIXED $p $commit: $R does not apply"; git -C /repo worktree remove --force $W; continue; }
  elif ! git -C $W revert --no-commit $commit >/dev/null 2>&1; then
    git -C $W revert --abort >/dev/null 2>&1; git -C $W checkout -q -- . ; echo "FIXED $p $commit: cannot be reverted cleanly on the current tree (later fixes touch the same lines) - skipped"
    git -C /repo worktree remove --force $W; continue
  fi
  VERIF_REPO=$W VERIF_BUILD_SUFFIX=.fixed_$commit ./verif check $p > /tmp/sc/fixed_$commit.log 2>&1 < /dev/null; rc=$?
  echo "FIXED $p $commit: check on the tree without this fix -> exit $rc; $(grep -c '^VIOLATION' /tmp/sc/fixed_$commit.log) violation line(s): $(grep '^VIOLATION' /tmp/sc/fixed_$commit.log | head -1 | sed 's/.*obligation=//' | cut -c1-120)"
  git -C /verif checkout -- evidence/$p.json 2>/dev/null
  git -C /repo worktree remove --force $W
  rm -rf /verif/build/*.fixed_$commit
done
