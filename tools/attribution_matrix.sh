#!/bin/bash
# usage: attribution_matrix.sh <seeded id>...   For each seeded change: apply it in a scratch
# worktree, run every harness once, and print the set of properties whose check would report a
# violation (the FLAGS lines of `verif harness --brief`), next to the property the change was made for.
cd /verif
mkdir -p /tmp/sc
for n in "$@"; do
  W=/tmp/sc/am_$n
  rm -rf $W; git -C /repo worktree add -q --detach $W HEAD || continue
  git -C $W apply /verif/seeded/$n/patch.diff || { git -C /repo worktree remove --force $W; continue; }
  VERIF_REPO=$W VERIF_BUILD_SUFFIX=.am_$n VERIF_TIMEOUT=600 ./verif harness --all --brief > /tmp/sc/am_$n.txt 2>&1
  p=$(python3 -c "import json;print(json.load(open('/verif/seeded/$n/meta.json'))['breaks_property'])")
  f=$(grep "FLAGS" /tmp/sc/am_$n.txt | awk '{print $2}' | tr ',' '\n' | sort -u | paste -sd, -)
  echo "MATRIX $n made-for=$p flagged=$f no-verdict=$(grep -c 'NO-VERDICT' /tmp/sc/am_$n.txt)"
  git -C /repo worktree remove --force $W; rm -rf /verif/build/*.am_$n
done
