#!/bin/bash
# Applies all behaviour-preserving refactorings under /verif/harmless (produced by an
# independent sub-agent) to one scratch worktree of /repo and runs every harness
# against it: nothing may be refuted, and nothing may end without a verdict.
cd /verif
W=/tmp/sc/harmless
rm -rf $W; mkdir -p /tmp/sc
git -C /repo worktree add -q --detach $W HEAD || exit 2
for f in harmless/h*.diff harmless/g*.diff; do git -C $W apply /verif/$f || echo "does not apply (overlaps an earlier patch, skipped): $f"; done
VERIF_REPO=$W VERIF_BUILD_SUFFIX=.harmless ./verif harness --all --brief > /tmp/sc/harmless.txt 2>&1
echo "harnesses with 0 refuted: $(grep -c ' 0 refuted' /tmp/sc/harmless.txt)"
echo "other lines:"; grep -v ' 0 refuted' /tmp/sc/harmless.txt
git -C /repo worktree remove --force $W
rm -rf /verif/build/*.harmless
