#!/bin/bash
# usage: run_harmless_set.sh <prefix>   (h, g or s): applies harmless/<prefix>*.diff to one scratch
# worktree and runs every harness against it; nothing may be refuted.
cd /verif
P=$1; W=/tmp/sc/harmless_$P
rm -rf $W; mkdir -p /tmp/sc
git -C /repo worktree add -q --detach $W HEAD || exit 2
for f in harmless/$P*.diff; do git -C $W apply /verif/$f || echo "does not apply (overlaps an earlier patch, skipped): $f"; done
VERIF_REPO=$W VERIF_BUILD_SUFFIX=.harmless_$P ./verif harness --all --brief > /tmp/sc/harmless_$P.txt 2>&1
echo "harnesses with 0 refuted: $(grep -c ' 0 refuted' /tmp/sc/harmless_$P.txt)"
echo "other lines:"; grep -v ' 0 refuted' /tmp/sc/harmless_$P.txt
git -C /repo worktree remove --force $W
rm -rf /verif/build/*.harmless_$P
