#!/bin/bash
# Re-confirms every seeded change against /repo's current HEAD (scratch worktrees
# under /tmp/sc, removed afterwards) and runs the property's check against it.
cd /verif
mkdir -p /tmp/sc
ls seeded | xargs -P 5 -I{} bash -c 'n={}; p=$(python3 -c "import json;print(json.load(open(\"/verif/seeded/$n/meta.json\"))[\"breaks_property\"])"); ./tools/try_seeded.sh $n $p /verif/seeded/$n > /tmp/sc/log_$n.txt 2>&1'
for n in $(ls seeded); do echo "== $n: $(grep -h "demo_without\|tests_with\|demo_with_change\|check_" /tmp/sc/log_$n.txt | sed "s/RESULT $n //" | tr "\n" ";")"; done
