#!/usr/bin/env python3
"""Systematic mutation sweep (beyond the hand-written selftest mutants): generates
syntactic mutants of /repo's POSIX sources (relational / logical operator swaps,
boolean and +-1 constant changes, deletion of call statements), applies each to a
scratch copy outside /repo and /verif, and runs the harnesses that cover the
mutated function. A mutant is `killed` when some non-canary obligation is refuted,
`no-verdict` when a run ended without verdict and nothing was refuted, `survived`
otherwise. Survivors are candidates for contract weaknesses (or equivalent mutants)
and are triaged by hand in mutation/TRIAGE.md.

usage: mutation_sweep.py [--files a.c,b.c] [--max N] [--seed S] [--jobs J] [--out DIR] [--rerun results.jsonl]
"""
import concurrent.futures as cf
import json
import os
import random
import re
import shutil
import subprocess
import sys
import tempfile

VERIF = "/verif"
SRC = "/repo/reproc/src"

# function -> harnesses that enforce it or have it inlined
COVER = {
    "reproc_new": ["reproc_new"], "setup_input": ["setup_input"],
    "reproc_start": ["reproc_start_parent", "reproc_start_child"], "reproc_pid": ["reproc_pid"],
    "expiry": ["reproc_wait", "reproc_poll_1", "reproc_stop"],
    "find_earliest_deadline": ["find_earliest_deadline", "reproc_poll_2"],
    "contains_valid_pipe": ["reproc_poll_1", "reproc_poll_2"],
    "reproc_poll": ["reproc_poll_1", "reproc_poll_2"],
    "reproc_read": ["reproc_read"], "reproc_write": ["reproc_write"], "reproc_close": ["reproc_close"],
    "reproc_wait": ["reproc_wait", "reproc_stop"],
    "reproc_terminate": ["reproc_terminate", "reproc_stop"], "reproc_kill": ["reproc_kill", "reproc_stop"],
    "reproc_stop": ["reproc_stop", "reproc_destroy"], "reproc_destroy": ["reproc_destroy", "reproc_new"],
    "signal_mask": ["process_fork_parent", "process_fork_child", "process_fork_parent_st"],
    "process_fork": ["process_fork_parent", "process_fork_child"],
    "get_max_fd": ["get_max_fd", "process_fork_child"], "fd_in_set": ["fd_in_set"],
    "path_is_relative": ["path_is_relative", "process_start_child"], "path_prepend_cwd": ["path_prepend_cwd"],
    "handle_above_standard_streams": ["process_start_child"],
    "process_start": ["process_start_parent", "process_start_child"],
    "parse_status": ["parse_status"], "process_wait": ["process_wait"],
    "process_terminate": ["process_terminate"], "process_kill": ["process_kill"],
    "pipe_init": ["pipe_init"], "pipe_nonblocking": ["pipe_nonblocking"], "pipe_read": ["pipe_read"],
    "pipe_write": ["pipe_write"], "pipe_poll": ["reproc_wait", "reproc_poll_1", "reproc_poll_2"],
    "pipe_destroy": ["pipe_destroy"], "handle_cloexec": ["handle_cloexec"], "handle_destroy": ["handle_destroy"],
    "redirect_init": ["redirect_init"], "redirect_destroy": ["redirect_destroy"],
    "redirect_pipe": ["redirect_init"], "redirect_parent": ["redirect_init"], "redirect_discard": ["redirect_init"],
    "redirect_file": ["redirect_init"], "redirect_path": ["redirect_init"],
    "parse_options": ["parse_options"], "parse_redirect": ["parse_options"], "redirect_is_set": ["parse_options"],
    "parse_stop_actions": ["parse_options"], "stop_action_is_set": ["parse_options"],
    "strv_concat": ["strv_concat"], "str_dup": ["strv_concat"], "strv_free": ["strv_concat"],
    "reproc_drain": ["reproc_drain"], "sink_string": ["sink_string"], "reproc_sink_string": ["sink_string"],
    "reproc_run_ex": ["reproc_run_ex"], "reproc_run": ["reproc_run"], "now": ["now"],
}
# process.windows.c: the string-building functions (C18) and the three process functions (C01, C07)
COVER_WIN = {
    "argument_should_escape": ["win_argument_quoting"], "argument_escaped_size": ["win_argument_quoting"],
    "argument_escape": ["win_argument_quoting"], "argv_join": ["win_argv_join"],
    "env_join_size": ["win_env_block"], "env_join": ["win_env_block"],
    "process_wait": ["win_process_wait"], "process_terminate": ["win_process_terminate"], "process_kill": ["win_process_kill"],
}
FILES = ["reproc.c", "process.posix.c", "pipe.posix.c", "handle.posix.c", "redirect.c", "redirect.posix.c",
         "options.c", "strv.c", "drain.c", "run.c", "clock.posix.c"]

SET = 1  # operator set: 1 = relational/logical/constant/call deletion, 2 = negated conditions, constant returns, deleted assignments, arithmetic, dropped negation, sentinel constants

REL = [("<=", "<"), (">=", ">"), ("==", "!="), ("!=", "=="), (" < ", " <= "), (" > ", " >= ")]
LOG = [("&&", "||"), ("||", "&&")]
CONST = [("true", "false"), ("false", "true"), (" + 1", " + 0"), (" - 1", " - 0"), (" + 1", " + 2")]


def functions(lines):
    """line index -> name of the enclosing top-level function (or None)."""
    where = [None] * len(lines)
    cur, depth, last_head = None, 0, None
    for i, l in enumerate(lines):
        if depth == 0:
            if l.startswith("{") and last_head:
                cur, depth = last_head, 1
                continue
            m = re.match(r"^[A-Za-z_].*?\b(\w+)\($|^[A-Za-z_].*?\b(\w+)\(.*[,)]\s*$", l)
            if m and not l.rstrip().endswith(";"):
                last_head = m.group(1) or m.group(2)
        else:
            where[i] = cur
            if l.startswith("}"):
                depth, cur, last_head = 0, None, None
    return where


def candidates(file):
    lines = open(os.path.join(SRC, file)).read().split("\n")
    where = functions(lines)
    out = []
    cover = COVER_WIN if file.endswith(".windows.c") else COVER
    for i, l in enumerate(lines):
        fn = where[i]
        s = l.strip()
        if fn is None or fn not in cover or not s or s.startswith(("//", "/*", "*", "#")) or "REPROC_VERIF" in l:
            continue
        if s.startswith("ASSERT(") or s.startswith("ASSERT_UNUSED("):
            continue  # compiled out (-DNDEBUG)
        code = l.split("//")[0]
        for table, kind in (() if SET == 2 else ((REL, "rel"), (LOG, "log"), (CONST, "const"))):
            for a, b in table:
                k = code.find(a)
                if k < 0:
                    continue
                if a in ("<=", ">=") and code[k - 1:k] in ("<", ">"):
                    continue
                if a.strip() in ("<", ">") and ("->" in code[k - 1:k + 3] or "<<" in code or ">>" in code):
                    continue
                new = code[:k] + b + code[k + len(a):]
                out.append({"file": file, "line": i + 1, "fn": fn, "kind": kind, "old": l, "new": new})
        if SET == 2:
            ind = re.match(r"^\s*", code).group(0)
            m2 = re.match(r"^(\s+(?:\} else )?if \()(.*)(\) \{\s*)$", code)
            if m2:
                out.append({"file": file, "line": i + 1, "fn": fn, "kind": "negate-if", "old": l, "new": m2.group(1) + "!(" + m2.group(2) + ")" + m2.group(3)})
            m2 = re.match(r"^(\s+return )(.+);\s*$", code)
            if m2 and m2.group(2).strip() not in ("0", "-1", "NULL", "false", "true"):
                for c in ("0", "-1"):
                    out.append({"file": file, "line": i + 1, "fn": fn, "kind": "return-const", "old": l, "new": m2.group(1) + c + ";"})
            if re.match(r"^\s+[\w\.\->\[\]\*]+\s*(=|\+=|\|=)\s*[^=(]+;\s*$", code) and not re.match(r"^\s+(int|size_t|char|bool|pid_t|struct|const|static|uint8_t|int64_t|pipe_type|handle_type)\b", code):
                out.append({"file": file, "line": i + 1, "fn": fn, "kind": "delete-assign", "old": l, "new": ind + ";"})
            for a, b in ((" + ", " - "), (" - ", " + "), (" | ", " & "), (" & ~", " & "), ("++", "--")):
                k = code.find(a)
                if k >= 0:
                    out.append({"file": file, "line": i + 1, "fn": fn, "kind": "arith", "old": l, "new": code[:k] + b + code[k + len(a):]})
            k = code.find("!")
            if k >= 0 and code[k + 1:k + 2] not in ("=",) and "ASSERT" not in code:
                out.append({"file": file, "line": i + 1, "fn": fn, "kind": "drop-not", "old": l, "new": code[:k] + code[k + 1:]})
            for a, b in (("PIPE_INVALID", "0"), ("HANDLE_INVALID", "0"), ("REPROC_INFINITE", "0"), ("NULL", "(void *) 1")):
                k = code.find(a)
                if k >= 0 and "ASSERT" not in code:
                    out.append({"file": file, "line": i + 1, "fn": fn, "kind": "const2", "old": l, "new": code[:k] + b + code[k + len(a):]})
            continue
        if re.match(r"^\s+(\w[\w\.\->\[\]\*]*\s*=\s*)?\w+\(.*\);\s*$", code) and "return" not in code and not re.match(r"^\s+(int|size_t|char|bool|pid_t|struct|const|static)\b", code):
            ind = re.match(r"^\s*", code).group(0)
            out.append({"file": file, "line": i + 1, "fn": fn, "kind": "delete-call", "old": l, "new": ind + ";"})
    return out


def run_one(m, idx, timeout):
    top = tempfile.mkdtemp(prefix="verif-mut-")
    try:
        shutil.copytree("/repo/reproc", os.path.join(top, "reproc"))
        p = os.path.join(top, "reproc", "src", m["file"])
        lines = open(p).read().split("\n")
        # the line may have moved (later commits in /repo): take the closest identical line
        idxs = [i for i, l in enumerate(lines) if l == m["old"]]
        assert idxs, "line not found: " + m["old"]
        k = min(idxs, key=lambda i: abs(i - (m["line"] - 1)))
        lines[k] = m["new"]
        open(p, "w").write("\n".join(lines))
        env = dict(os.environ, VERIF_REPO=top, VERIF_BUILD_SUFFIX=".mut%d" % idx, VERIF_TIMEOUT=str(timeout), VERIF_JOBS="2")
        refuted, noverdict = [], []
        for h in (COVER_WIN if m["file"].endswith(".windows.c") else COVER)[m["fn"]]:
            r = subprocess.run([os.path.join(VERIF, "verif"), "harness", h, "--brief"], capture_output=True, text=True, env=env)
            for l in r.stdout.splitlines():
                t = l.strip()
                if t.startswith("FAILURE") and "canary/" not in t and "reach/" not in t:
                    refuted.append("%s:%s" % (h, t.split()[1]))
                if "NO-VERDICT" in t or "NO VERDICT" in t:
                    noverdict.append("%s: %s" % (h, t[:200]))
            shutil.rmtree(os.path.join(VERIF, "build", h + ".mut%d" % idx), ignore_errors=True)
            if refuted:
                break
        m = dict(m)
        m["verdict"] = "killed" if refuted else ("no-verdict" if noverdict else "survived")
        m["refuted"] = refuted[:6]
        m["no_verdict"] = noverdict[:3]
        return m
    finally:
        shutil.rmtree(top, ignore_errors=True)


def main():
    a = sys.argv[1:]
    def opt(name, default):
        return a[a.index(name) + 1] if name in a else default
    global SET
    SET = int(opt("--set", "1"))
    files = opt("--files", ",".join(FILES)).split(",")
    mx = int(opt("--max", "200"))
    seed = int(opt("--seed", "1"))
    jobs = int(opt("--jobs", "7"))
    out = opt("--out", os.path.join(VERIF, "mutation"))
    timeout = int(opt("--timeout", "400"))
    os.makedirs(out, exist_ok=True)
    cands = []
    rerun = opt("--rerun", None)
    if rerun:
        # only what was not killed in an earlier run (after strengthening the checks)
        for l in open(rerun):
            r = json.loads(l)
            if r["verdict"] != "killed":
                cands.append({k: r[k] for k in ("file", "line", "fn", "kind", "old", "new")})
    else:
        for f in files:
            cands += candidates(f)
        random.Random(seed).shuffle(cands)
        cands = cands[:mx]
    print("%d mutants selected" % len(cands), flush=True)
    res = []
    with cf.ThreadPoolExecutor(max_workers=jobs) as ex:
        futs = [ex.submit(run_one, m, i, timeout) for i, m in enumerate(cands)]
        for f in cf.as_completed(futs):
            try:
                r = f.result()
            except Exception as e:  # noqa: BLE001
                print("error", e, flush=True)
                continue
            res.append(r)
            print("%-10s %s:%d %s [%s] %s -> %s   %s" % (r["verdict"], r["file"], r["line"], r["fn"], r["kind"],
                  r["old"].strip()[:60], r["new"].strip()[:60], ",".join(r["refuted"][:2])), flush=True)
    res.sort(key=lambda r: (r["file"], r["line"], r["kind"]))
    tag = "set%d-seed%d" % (SET, seed) + ("-rerun" if rerun else "")
    with open(os.path.join(out, "results-%s.jsonl" % tag), "w") as f:
        for r in res:
            f.write(json.dumps(r) + "\n")
    k = sum(r["verdict"] == "killed" for r in res)
    s = sum(r["verdict"] == "survived" for r in res)
    n = sum(r["verdict"] == "no-verdict" for r in res)
    print("mutants %d: killed %d, survived %d, no-verdict %d" % (len(res), k, s, n))


if __name__ == "__main__":
    main()
