#!/bin/bash
# Re-runs, for every seeded change, the check of the property it was made for against a scratch
# worktree with the change applied (check only; tools/try_seeded.sh does the full confirmation).
# usage: recheck_all_seeded.sh [parallelism]   Output: one line per change; exit 1 = reported.
cd /verif
mkdir -p /tmp/sc
J=${1:-4}
one() {
  n=$1
  p=$(python3 -c "import json;print(json.load(open('/verif/seeded/$n/meta.json'))['breaks_property'])")
  st=$(python3 -c "import json;print(json.load(open('/verif/seeded/$n/meta.json')).get('status',''))" | cut -c1-12)
  W=/tmp/sc/rc_$n
  rm -rf $W; git -C /repo worktree add -q --detach $W HEAD 2>/dev/null || { echo "RECHECK $n $p worktree-failed"; return; }
  if ! git -C $W apply /verif/seeded/$n/patch.diff 2>/dev/null; then echo "RECHECK $n $p patch-does-not-apply $st"; git -C /repo worktree remove --force $W; return; fi
  VERIF_REPO=$W VERIF_BUILD_SUFFIX=.rc_$n VERIF_JOBS=4 VERIF_EVIDENCE_DIR=/tmp/sc/ev_$n /verif/verif check $p > /tmp/sc/rc_$n.log 2>&1; rc=$?
  echo "RECHECK $n $p exit=$rc $st $(grep -c '^VIOLATION' /tmp/sc/rc_$n.log) violation line(s)"
  git -C /repo worktree remove --force $W; rm -rf /verif/build/*.rc_$n
}
export -f one
ls seeded | xargs -P $J -I{} bash -c 'one {}'
