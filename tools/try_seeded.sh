#!/bin/bash
# usage: try_seeded.sh <name> <property> <dir with patch.diff, run_demo.sh, demo.c>
# Confirms a seeded change in a scratch worktree (outside /repo and /verif):
#   demo passes without the change; change applies; test suite passes with it;
#   demo fails with it; then runs the property's check against the changed tree.
set -u
NAME=$1; PROP=$2; SRC=$3
W=/tmp/sc/$NAME
rm -rf $W; mkdir -p /tmp/sc
git -C /repo worktree add -q --detach $W HEAD || exit 2
res() { echo "RESULT $NAME $1: $2"; }
( cd $SRC && bash ./run_demo.sh $W >/tmp/sc/$NAME.demo0.log 2>&1 ); D0=$?
res demo_without_change "exit $D0 (want 0)"
git -C $W apply $SRC/patch.diff; A=$?
res patch_applies "exit $A"
cmake -G Ninja -S $W -B $W/_build -DCMAKE_BUILD_TYPE=RelWithDebInfo -DREPROC_TEST=ON -DREPROC_MULTITHREADED=ON >/dev/null 2>&1 && cmake --build $W/_build >/dev/null 2>&1; B=$?
res builds "exit $B"
ctest --test-dir $W/_build -j8 --timeout 900 >/tmp/sc/$NAME.ctest.log 2>&1; T=$?
res tests_with_change "exit $T (want 0) $(grep 'tests passed' /tmp/sc/$NAME.ctest.log)"
( cd $SRC && bash ./run_demo.sh $W >/tmp/sc/$NAME.demo1.log 2>&1 ); D1=$?
res demo_with_change "exit $D1 (want non-zero)"
rm -rf $W/_build
cd /verif
VERIF_REPO=$W VERIF_BUILD_SUFFIX=.seed_$NAME ./verif check $PROP > /tmp/sc/$NAME.check.log 2>&1; C=$?
res check_$PROP "exit $C (want 1) $(grep -c VIOLATION /tmp/sc/$NAME.check.log) violation lines"
grep "VIOLATION\|NO-VERDICT" /tmp/sc/$NAME.check.log | cut -c1-300
# the evidence file was rewritten against the scratch tree: restore it
git -C /verif checkout -- evidence/$PROP.json 2>/dev/null
git -C /repo worktree remove --force $W
rm -rf /verif/build/*.seed_$NAME
