#!/usr/bin/env python3
"""Driver for the contract-based verification of reproc (DESIGN.md §2.7–§2.11).

  verif check <PROP> [--tier quick|thorough]   decide one property
  verif harness <name> [--tier T] [--keep]     run one harness, print obligations
  verif list                                   harness table
  verif replay <file>                          re-run a replay file natively
  verif selftest                               built-in mutants must be refuted
  verif setup                                  sanity-check the tool chain

Exit codes: 0 all obligations discharged; 1 an obligation was refuted (VIOLATION
line printed); 2 no verdict (timeout, out of memory, build error, vacuity guard).
"""
import concurrent.futures as cf
import hashlib
import json
import os
import re
import resource
import shutil
import subprocess
import sys
import time

VERIF = os.path.dirname(os.path.dirname(os.path.abspath(__file__)))
REPO = os.environ.get("VERIF_REPO", "/repo")
BUILD = os.path.join(VERIF, "build")
SRC = os.path.join(REPO, "reproc", "src")

sys.path.insert(0, os.path.join(VERIF, "lib"))
import specs  # noqa: E402

BASE_DEFS = ["-DNDEBUG", "-DREPROC_MULTITHREADED", "-DREPROC_VERIF"]


def base_defs(spec):
    """The baseline configuration, minus what the harness asks to leave undefined
    (`undef`: e.g. REPROC_MULTITHREADED for the single-threaded variant)."""
    return [d for d in BASE_DEFS if d[2:] not in spec.get("undef", [])]


CHECK_FLAGS = [
    "--bounds-check", "--pointer-check", "--pointer-overflow-check",
    "--signed-overflow-check", "--undefined-shift-check",
    "--div-by-zero-check", "--memory-leak-check", "--pointer-primitive-check",
    # allocation failure is injected by the OS layer (verif_malloc & co.), so that
    # every nondeterministic choice is scriptable for the native replay
    "--no-malloc-may-fail",
]
MEM_KB = 16 * 1024 * 1024

LABEL_RE = re.compile(r"(?:/\*@\s*|\b(?:ENSX?|REQ)\(\s*\")([A-Za-z0-9+]+/[\w.\-]+)(?:\s*\*/|\")")
DESC_LABEL_RE = re.compile(r"^((?:(?:C\d\d|INV)\+?)+|canary|reach)/[\w.\-]+$")


class NoVerdict(Exception):
    pass


def log(*a):
    print(*a, file=sys.stderr, flush=True)


def run(cmd, out, timeout, cwd=None):
    """Run cmd with stdout -> file `out`, stderr -> out + '.err'."""
    def lim():
        resource.setrlimit(resource.RLIMIT_AS, (MEM_KB * 1024, MEM_KB * 1024))
    t0 = time.time()
    with open(out, "w") as fo, open(out + ".err", "w") as fe:
        try:
            p = subprocess.run(cmd, stdout=fo, stderr=fe, timeout=timeout,
                               cwd=cwd, preexec_fn=lim)
            rc = p.returncode
        except subprocess.TimeoutExpired:
            rc = -999
    return rc, time.time() - t0


# --------------------------------------------------------------------------
# labels


def scan_labels(path):
    """(line -> label) for every `/*@ label */` in a file."""
    m = {}
    try:
        with open(path, errors="replace") as f:
            for i, line in enumerate(f, 1):
                mm = LABEL_RE.search(line)
                if mm:
                    m[i] = mm.group(1)
    except OSError:
        pass
    return m


_label_cache = {}


def label_at(path, line):
    path = os.path.normpath(path)
    if path not in _label_cache:
        _label_cache[path] = scan_labels(path)
    return _label_cache[path].get(line)


def contract_labels(fn):
    """Labels attached to the ensures clauses of fn's contract (must-fire)."""
    out = []
    for name in os.listdir(os.path.join(VERIF, "contracts")):
        p = os.path.join(VERIF, "contracts", name)
        txt = open(p, errors="replace").read()
        # a contract block: from the declarator containing `fn(` to the `;`
        for m in re.finditer(r"\b%s\s*\(" % re.escape(fn), txt):
            # must be a declaration with contract clauses following
            end = txt.find(";", m.end())
            block = txt[m.start():end]
            if "ENS(" not in block and "ENSX(" not in block and "REQ" not in block:
                continue
            for line in block.splitlines():
                mm = re.search(r'\bENSX?\(\s*"([^"]+)"', line)
                if mm:
                    out.append(mm.group(1))
            return out
    return out


def props_of(label):
    head = label.split("/", 1)[0]
    if head in ("canary", "reach"):
        return []
    out = []
    for t in head.split("+"):
        # INV: a clause the representation invariant of reproc_t rests on - a premise
        # of every property stated over API call histories
        out += specs.HISTORY_PROPS if t == "INV" else [t]
    return out


# --------------------------------------------------------------------------
# one harness


class HarnessResult:
    def __init__(self, spec, tier):
        self.spec = spec
        self.tier = tier
        self.obligations = []   # dicts: id, status, label, cls, desc, file, line, fn
        self.solver_s = 0.0
        self.wall_s = 0.0
        self.cmds = []
        self.problems = []      # no-verdict reasons
        self.dir = None

    @property
    def name(self):
        return self.spec["name"]


def spec_defs(spec, tier):
    d = dict(spec.get("defs", {}))
    d.update(spec.get("defs_" + tier, {}))
    return ["-D%s=%s" % (k, v) if v is not None else "-D%s" % k for k, v in d.items()]


def harness_sources(spec):
    """All files whose content determines this harness (for evidence)."""
    files = [os.path.join(VERIF, "harness", spec["src"])]
    files += [os.path.join(SRC, t) for t in specs.tus_of(spec)]
    return files


def classify(pid, desc):
    # pid like 'expiry.postcondition.1', 'harness.assertion.3', 'x.overflow.2'
    parts = pid.split(".")
    cls = parts[-2] if len(parts) >= 2 else pid
    if "loop invariant" in desc or "loop_invariant" in pid:
        if "base" in desc or "before entry" in desc:
            cls = "loop_invariant_base"
        elif "step" in desc or "preserved" in desc:
            cls = "loop_invariant_step"
    if "variant decreases" in desc:
        cls = "loop_variant"
    if "unwinding assertion" in desc:
        cls = "unwind"
    if "is assignable" in desc:
        cls = "frame"
    return cls


def build_harness(spec, tier, extra_defs=(), keep=False, native=False):
    name = spec["name"]
    d = os.path.join(BUILD, name + ("." + tier if tier != "quick" else "") + os.environ.get("VERIF_BUILD_SUFFIX", ""))
    shutil.rmtree(d, ignore_errors=True)
    os.makedirs(d)
    res = HarnessResult(spec, tier)
    res.dir = d
    win = spec.get("win", False)
    incs = ["-I" + SRC, "-I" + os.path.join(REPO, "reproc", "include"),
            "-I" + os.path.join(VERIF, "os"), "-I" + os.path.join(VERIF, "contracts"),
            "-I" + os.path.join(VERIF, "harness")]
    defs = base_defs(spec) + spec_defs(spec, tier) + list(extra_defs)
    pre = []
    if win:
        incs = ["-I" + os.path.join(VERIF, "stubs", "win")] + incs
        defs += ["-D_WIN32", "-D_WIN64"]
    else:
        pre = ["-include", os.path.join(VERIF, "os", "rename.h")]
    objs = []
    # gen/pre_<fn>.inc, gen/post_<fn>.inc: empty for CBMC (the contract clauses
    # are checked by DFCC); the native replay build fills them (lib/native.py)
    os.makedirs(os.path.join(d, "gen"))
    htxt = open(os.path.join(VERIF, "harness", spec["src"])).read()
    for inc in re.findall(r'#include "gen/(\w+\.inc)"', htxt):
        open(os.path.join(d, "gen", inc), "w").close()
        if inc.startswith("pre_"):  # companions, in case only some are included
            for other in ("post_", "assume_"):
                open(os.path.join(d, "gen", other + inc[4:]), "w").close()
    incs.append("-I" + d)
    if spec.get("light"):
        # "light" enforcement: the contract's ensures clauses of the function under
        # test become labelled assertions after the call in the harness (with
        # snapshots for OLD), checked by plain CBMC without DFCC's write-set
        # instrumentation; the frame is asserted explicitly by the harness.
        import native as nat
        nat.gen_includes(spec, d, base_defs(spec) + spec_defs(spec, tier) + list(extra_defs), incs, cbmc=True)
    units = [(os.path.join(VERIF, "harness", spec["src"]), spec.get("contracts", []))]
    for t in specs.tus_of(spec):
        units.append((os.path.join(SRC, t), spec.get("tu_contracts", ["public.h"])))
    if not win:
        units.append((os.path.join(VERIF, "os", "os_posix.c"), []))
    for t in spec.get("extra", []):
        units.append((os.path.join(VERIF, t), []))
    for i, (src, chs) in enumerate(units):
        if not os.path.exists(src):
            res.problems.append("missing source %s" % src)
            return res
        o = os.path.join(d, "u%d.o" % i)
        cmd = ["goto-cc", "-c"] + defs + incs + pre
        for ch in chs:
            cmd += ["-include", os.path.join(VERIF, "contracts", ch)]
        cmd += [src, "-o", o]
        rc, _ = run(cmd, os.path.join(d, "cc%d.log" % i), 300)
        res.cmds.append(" ".join(cmd))
        if rc != 0:
            err = open(os.path.join(d, "cc%d.log.err" % i)).read()
            res.problems.append("goto-cc failed on %s: %s" % (src, err[-1500:]))
            return res
        objs.append(o)
    a = os.path.join(d, "a.gb")
    cmd = ["goto-cc", "--function", "harness"] + objs + ["-o", a]
    rc, _ = run(cmd, os.path.join(d, "link.log"), 300)
    if rc != 0:
        res.problems.append("link failed: " + open(os.path.join(d, "link.log.err")).read()[-1500:])
        return res
    res.gb = a
    return res


def instrument(res):
    spec = res.spec
    d = res.dir
    b = os.path.join(d, "b.gb")
    enforce = spec.get("enforce")
    replace = spec.get("replace", [])
    if not enforce and not replace and not spec.get("loop_contracts"):
        res.gb2 = res.gb
        return
    # --no-malloc-may-fail must be given here: DFCC links the malloc model
    cmd = ["goto-instrument", "--no-malloc-may-fail", "--dfcc", "harness"]
    if enforce:
        cmd += ["--enforce-contract-rec" if spec.get("rec") else "--enforce-contract", enforce]
    for r in replace:
        cmd += ["--replace-call-with-contract", r]
    if spec.get("loop_contracts"):
        cmd += ["--apply-loop-contracts"]
    cmd += spec.get("instrument_flags", [])
    # DFCC's loop-contract mode cannot track the locals of loops that have no
    # contract: unwind those first (identified by their source text, so that
    # harmless edits that renumber loops do not matter)
    if spec.get("pre_unwind"):
        rc, _ = run(["goto-instrument", "--show-loops", res.gb], os.path.join(d, "loops.txt"), 120)
        loops = re.findall(r"Loop (\S+):\n\s+file (\S+) line (\d+)", open(os.path.join(d, "loops.txt")).read())
        sets = []
        for pu in spec["pre_unwind"]:
            if "function" in pu:
                # every loop of that function except the hooked ones (those carry
                # a loop contract): independent of how the loop is spelled
                n = 0
                for (lid, f, ln) in loops:
                    if lid.rsplit(".", 1)[0] != pu["function"]:
                        continue
                    try:
                        text = open(f, errors="replace").read().splitlines()[int(ln) - 1]
                    except (OSError, IndexError):
                        text = ""
                    if "REPROC_VERIF_LOOP(" in text:
                        continue
                    sets.append("%s:%d" % (lid, pu["bound"]))
                    n += 1
                if n == 0:
                    res.problems.append("pre-unwind: no loop without hook found in %s" % pu["function"])
                    return
                continue
            path = os.path.join(SRC, pu["file"])
            lines = [i for i, l in enumerate(open(path, errors="replace"), 1) if pu["text"] in l]
            ids = [lid for (lid, f, ln) in loops if os.path.normpath(f) == os.path.normpath(path) and int(ln) in lines]
            if len(ids) != 1:
                res.problems.append("pre-unwind: loop '%s' in %s not found exactly once (%s)" % (pu["text"], pu["file"], ids))
                return
            sets.append("%s:%d" % (ids[0], pu["bound"]))
        a2 = os.path.join(d, "a2.gb")
        ucmd = ["goto-instrument", "--unwindset", ",".join(sets), "--unwinding-assertions", res.gb, a2]
        rc, _ = run(ucmd, os.path.join(d, "unwind.log"), 300)
        res.cmds.append(" ".join(ucmd))
        if rc != 0:
            res.problems.append("pre-unwind failed: " + open(os.path.join(d, "unwind.log.err")).read()[-800:])
            return
        res.gb = a2
    cmd += [res.gb, b]
    rc, _ = run(cmd, os.path.join(d, "instr.log"), 600)
    res.cmds.append(" ".join(cmd))
    logtxt = open(os.path.join(d, "instr.log")).read() + open(os.path.join(d, "instr.log.err")).read()
    if rc != 0:
        res.problems.append("goto-instrument failed: " + logtxt[-2000:])
        return
    res.instr_log = logtxt
    res.gb2 = b


def cbmc_cmd(res, extra=()):
    spec = res.spec
    cmd = ["cbmc"] + [f for f in CHECK_FLAGS if not (spec.get("no_leak_check") and f == "--memory-leak-check")]
    unwind = spec.get("unwind_" + res.tier, spec.get("unwind"))
    if unwind:
        cmd += ["--unwind", str(unwind), "--unwinding-assertions"]
    for us in spec.get("unwindset", []):
        cmd += ["--unwindset", us]
    cmd += ["--object-bits", str(spec.get("object_bits", 10))]
    cmd += spec.get("cbmc_flags", [])
    cmd += list(extra)
    cmd += ["--verbosity", "8", "--json-ui", res.gb2]
    return cmd


def parse_results(res, path):
    try:
        data = json.load(open(path))
    except Exception as e:  # noqa: BLE001
        res.problems.append("cbmc output unreadable (%s): %s" % (e, open(path + ".err").read()[-500:]))
        return
    msgs = []
    found = False
    for e in data:
        if "messageText" in e:
            msgs.append(e["messageText"])
            m = re.search(r"Runtime Solver: ([\d.e+-]+)s", e["messageText"])
            if m:
                res.solver_s += float(m.group(1))
            m = re.search(r"Runtime Symex: ([\d.e+-]+)s", e["messageText"])
            if m:
                res.symex_s = float(m.group(1))
            m = re.search(r"(\d+) variables, (\d+) clauses", e["messageText"])
            if m:
                res.sat_size = (int(m.group(1)), int(m.group(2)))
        single = None
        if "property" in e and "status" in e and "result" not in e:
            # --stop-on-fail prints the one refuted property as an object of its own;
            # its source location is that of the failing step of the trace
            single = dict(e)
            single["status"] = "FAILURE" if str(e["status"]).lower().startswith("fail") else str(e["status"]).upper()
            for st in reversed(e.get("trace", [])):
                if st.get("stepType") == "failure":
                    single["sourceLocation"] = st.get("sourceLocation", {})
                    break
        if "result" in e or single is not None:
            found = True
            for r in (e["result"] if single is None else [single]):
                sl = r.get("sourceLocation", {})
                f = sl.get("file", "")
                if f and not os.path.isabs(f):
                    f = os.path.normpath(os.path.join(sl.get("workingDirectory", ""), f))
                line = int(sl.get("line", 0) or 0)
                desc = r.get("description", "")
                label = None
                cls = classify(r["property"], desc)
                if DESC_LABEL_RE.match(desc.strip()):
                    label = desc.strip()
                elif cls in ("postcondition", "precondition", "assertion") and f and (f.startswith(os.path.join(VERIF, "contracts")) or
                            f.startswith(os.path.join(VERIF, "harness"))):
                    label = label_at(f, line)
                ob = {"id": r["property"], "status": r["status"], "label": label,
                      "cls": cls, "desc": desc,
                      "file": f, "line": line, "fn": sl.get("function", "")}
                if "trace" in r:
                    ob["trace"] = r["trace"]
                res.obligations.append(ob)
    res.messages = msgs
    if not found:
        tail = " | ".join(msgs[-4:])
        res.problems.append("cbmc produced no result list: " + tail[-800:])
    # vacuity guard 3: log scan
    alltxt = "\n".join(msgs) + getattr(res, "instr_log", "")
    for bad in ("no body for callee", "ignoring forall", "ignoring exists",
                "undefined function should be unreachable"):
        if bad in alltxt:
            # the last one is an assertion emitted by DFCC; it only matters if reachable
            if bad == "undefined function should be unreachable":
                continue
            res.problems.append("log scan: '%s'" % bad)
    for ob in res.obligations:
        if "undefined function should be unreachable" in ob["desc"] and ob["status"] != "SUCCESS":
            res.problems.append("a function without body is reachable: %s" % ob["id"])
        if "no body for" in ob["desc"] and ob["status"] != "SUCCESS":
            res.problems.append("no body: %s" % ob["desc"])


def run_harness(spec, tier, extra_defs=(), keep=False, trace_props=()):
    t0 = time.time()
    res = build_harness(spec, tier, extra_defs)
    if not res.problems:
        instrument(res)
    if not res.problems:
        extra = []
        for p in trace_props:
            extra += ["--property", p]
        if trace_props:
            extra += ["--trace"]
        cmd = cbmc_cmd(res, extra)
        res.cmds.append(" ".join(cmd))
        out = os.path.join(res.dir, "cbmc.json" if not trace_props else "trace.json")
        timeout = int(os.environ.get("VERIF_TIMEOUT", spec.get("timeout_" + tier, spec.get("timeout", 900))))
        rc, wall = run(cmd, out, timeout)
        if rc == -999:
            res.problems.append("cbmc timed out after %ds" % timeout)
            if not trace_props:
                fb = stop_on_fail_fallback(spec, tier, extra_defs, timeout)
                if fb is not None:
                    fb.wall_s = time.time() - t0
                    return fb
        elif rc not in (0, 10):
            err = open(out + ".err").read()
            res.problems.append("cbmc exit code %d: %s" % (rc, err[-600:]))
            parse_results(res, out)
        else:
            parse_results(res, out)
    # thorough tier: the slowest harnesses are re-decided with a second SAT back end
    # (CaDiCaL) to detect solver-dependent answers
    if tier == "thorough" and spec.get("cross_check") and not res.problems and not trace_props:
        cmd2 = cbmc_cmd(res, ["--sat-solver", "cadical"])
        out2 = os.path.join(res.dir, "cbmc.cadical.json")
        rc2, _ = run(cmd2, out2, spec.get("timeout_thorough", spec.get("timeout", 900)))
        res.cmds.append(" ".join(cmd2))
        alt = HarnessResult(spec, tier)
        alt.dir = res.dir
        if rc2 in (0, 10):
            parse_results(alt, out2)
            a = {(o["id"], o["status"]) for o in res.obligations}
            b = {(o["id"], o["status"]) for o in alt.obligations}
            res.cross_check = "cadical agrees on %d obligations" % len(a) if a == b else "DISAGREES"
            if a != b:
                res.problems.append("SAT back ends disagree (minisat vs cadical) on %d obligations" % len(a ^ b))
        else:
            res.cross_check = "cadical run gave no result (exit %s)" % rc2
    res.wall_s = time.time() - t0
    if not trace_props:
        guards(res)
    return res


def stop_on_fail_fallback(spec, tier, extra_defs, timeout):
    """When deciding all obligations at once ran out of time: rebuild without the
    canaries (which must fail) and ask only for the first refuted obligation. A
    refutation found this way is a verdict (the obligation is named and has a
    counterexample); finding none is not (the vacuity guards need the full run)."""
    defs = list(extra_defs) + ["-DVERIF_NO_CANARY"]
    res = build_harness(spec, tier, defs)
    if not res.problems:
        instrument(res)
    if res.problems:
        return None
    cmd = cbmc_cmd(res, ["--stop-on-fail"])
    res.cmds.append(" ".join(cmd))
    out = os.path.join(res.dir, "cbmc.json")
    rc, _ = run(cmd, out, timeout)
    if rc != 10:
        return None
    parse_results(res, out)
    if not failures(res):
        return None
    res.extra_defs = defs
    res.partial = ("all-obligations run timed out after %ds; this result is the first refuted obligation of a "
                   "--stop-on-fail run without canaries (other obligations undecided)" % timeout)
    return res


def guards(res):
    """Vacuity guards (DESIGN §2.8)."""
    spec = res.spec
    if res.problems:
        return
    labels = {}
    for ob in res.obligations:
        if ob["label"]:
            labels.setdefault(ob["label"], []).append(ob)
    # 1. must-fire: labels in the harness file, in the enforced function's contract,
    #    and those the spec names explicitly
    must = set(scan_labels(os.path.join(VERIF, "harness", spec["src"])).values())
    if spec.get("enforce") or spec.get("light_fn"):
        must |= set(contract_labels(spec.get("enforce") or spec["light_fn"]))
    must |= set(spec.get("must", []))
    must -= set(spec.get("may_not_fire", []))
    for lab in sorted(must):
        if lab not in labels:
            res.problems.append("must-fire: label %s produced no obligation" % lab)
    if not res.obligations:
        res.problems.append("zero obligations")
    # 2. canaries must fail
    ncan = 0
    for lab, obs in labels.items():
        if lab.startswith("canary/"):
            ncan += 1
            for ob in obs:
                if ob["status"] == "SUCCESS":
                    res.problems.append("vacuity: canary %s is unreachable" % lab)
    # reachability probes inside the OS layer: must fail where the spec lists them
    for lab in spec.get("must_fail", []):
        obs = labels.get(lab, [])
        if not obs:
            res.problems.append("must-fail: probe %s produced no obligation" % lab)
        for ob in obs:
            if ob["status"] == "SUCCESS":
                res.problems.append("vacuity: %s is unreachable" % lab)
    if ncan == 0 and not spec.get("no_canary"):
        res.problems.append("harness has no canary")
    # 3. hooked loops need their invariant obligations
    if spec.get("loop_contracts"):
        if not any(o["cls"].startswith("loop_invariant") for o in res.obligations):
            res.problems.append("loop contract was silently dropped (no loop invariant obligations)")
    # unwinding assertions that fail are "bound too small", never a verdict
    for ob in res.obligations:
        if ob["cls"] == "unwind" and ob["status"] != "SUCCESS":
            res.problems.append("unwinding assertion failed (%s): bound too small" % ob["id"])


def failures(res, prop=None):
    """Refuted obligations that count as violations (of `prop` if given)."""
    out = []
    for ob in res.obligations:
        if ob["status"] == "SUCCESS":
            continue
        lab = ob["label"]
        if lab and lab.startswith(("canary/", "reach/")):
            continue
        if ob["cls"] == "unwind":
            continue
        if prop is None:
            out.append(ob)
        elif getattr(res, "partial", None):
            # stop-on-fail fallback: one refuted obligation is known, the rest of the
            # harness is undecided; every property the harness serves has lost a premise
            out.append(ob)
        elif prop in res.spec.get("assumed_by", []):
            # another harness of `prop` assumes this function's whole contract
            # (replaced by hand): every obligation of this harness is a premise
            # of that proof
            out.append(ob)
        elif lab:
            owners = set(props_of(lab))
            # an obligation labelled only with properties this harness does not
            # serve would never be reported by anybody: it then belongs to every
            # property the harness serves
            if not (owners & set(res.spec["props"])):
                owners = set(res.spec["props"])
            # the representation invariant is the induction hypothesis of every
            # property stated over API histories: a function that breaks it
            # invalidates every property its harness serves
            if lab.endswith(".invariant_kept"):
                owners |= set(res.spec["props"])
            if prop in owners:
                out.append(ob)
        else:
            # unlabelled (safety, frame, loop) obligations belong to the
            # harness's safety properties; memory leaks additionally to C05 and
            # memory-safety / undefined-behaviour checks to C14 wherever the
            # harness serves those properties
            owners = set(res.spec.get("safety_props", res.spec["props"][:1]))
            # a loop invariant (or the frame of a loop / function) that no longer
            # holds takes away the premise of every clause proved through it
            if ob["cls"].startswith(("loop_invariant", "loop_variant", "frame")):
                owners |= set(res.spec["props"])
            if ob["cls"] == "memory-leak" and "C05" in res.spec["props"]:
                owners.add("C05")
            if ob["cls"] in ("pointer_dereference", "pointer_arithmetic", "pointer_primitives", "array_bounds",
                             "bounds", "overflow", "undefined-shift", "division-by-zero", "precondition_instance") \
                    and "C14" in res.spec["props"]:
                owners.add("C14")
            if prop in owners:
                out.append(ob)
    return out


# --------------------------------------------------------------------------
# replay files


_NONDET_LINES = {}


def nondet_line(path, line):
    """`nondet_T` if source line `path:line` is a plain `lhs = nondet_T();` (CBMC
    sometimes assigns such a call's value directly, without a return_value_
    temporary that would name the function in the trace)."""
    if path not in _NONDET_LINES:
        tab = {}
        try:
            for i, text in enumerate(open(path, errors="replace"), 1):
                m = re.search(r"=\s*(nondet_[a-z]+)\(\)\s*;", text)
                if m and len(re.findall(r"nondet_[a-z]+\(", text)) == 1:
                    tab[i] = m.group(1)
        except OSError:
            pass
        _NONDET_LINES[path] = tab
    return _NONDET_LINES[path].get(line)


def extract_script(trace):
    """Ordered nondeterministic choices of a counterexample trace."""
    script = []
    pending = None  # location whose value was just taken from a return_value_ step
    for s in trace:
        if s.get("stepType") != "assignment" or s.get("hidden"):
            continue
        lhs = s.get("lhs", "")
        loc = s.get("sourceLocation", {})
        at = "%s:%s" % (loc.get("function"), loc.get("line"))
        v = s.get("value", {})
        m = re.match(r"return_value_(nondet_\w+?)(\$\d+)?$", lhs)
        if m:
            script.append({"fn": m.group(1), "value": v.get("data"), "bin": v.get("binary"), "at": at})
            pending = at
            continue
        if lhs.startswith("return_value_") or v.get("data") is None:
            continue
        try:
            fn = nondet_line(loc.get("file", ""), int(loc.get("line", 0)))
        except ValueError:
            fn = None
        if fn is None:
            continue
        if pending == at:
            pending = None  # the copy of the temporary into the left-hand side
            continue
        script.append({"fn": fn, "value": v.get("data"), "bin": v.get("binary"), "at": at})
    return script


def trace_summary(trace, limit=60):
    """Human-readable tail of the trace: calls into the OS layer and ghost updates."""
    lines = []
    for s in trace:
        st = s.get("stepType")
        if st == "function-call":
            fn = s.get("function", {}).get("displayName", "")
            if fn.startswith("verif_") or fn in specs.ALL_FUNCTIONS:
                lines.append("call %s" % fn)
        elif st == "assignment" and not s.get("hidden"):
            lhs = s.get("lhs", "")
            fn = s.get("sourceLocation", {}).get("function", "")
            if s.get("assignmentType") == "actual-parameter" or lhs.startswith("g.") \
                    or lhs.startswith("return_value_") or fn in ("harness", "any_process") \
                    or (fn in specs.ALL_FUNCTIONS and not lhs.startswith("__")) \
                    or "->" in lhs or lhs.startswith("dynamic_object"):
                lines.append("  %s = %s" % (lhs, s.get("value", {}).get("data")))
        elif st == "failure":
            lines.append("FAILURE %s" % s.get("reason", ""))
    return lines[-limit:]


def write_replay(prop, res, ob, tier):
    """Get CBMC's counterexample for one refuted obligation, try it natively."""
    os.makedirs(os.path.join(VERIF, "replays"), exist_ok=True)
    spec = res.spec
    tr = run_harness(spec, tier, extra_defs=getattr(res, "extra_defs", ()), trace_props=[ob["id"]])
    trace = None
    for o in tr.obligations:
        if o["id"] == ob["id"] and "trace" in o:
            trace = o["trace"]
    label = ob["label"] or ob["id"]
    rec = {
        "property": prop, "harness": spec["name"], "tier": tier,
        "obligation": {"label": label, "cbmc_property": ob["id"], "class": ob["cls"],
                       "description": ob["desc"], "file": ob["file"], "line": ob["line"],
                       "function": ob["fn"]},
        "enforced_function": spec.get("enforce"),
        "replaced_by_contract": spec.get("replace", []),
        "verifier": "cbmc 6.11.0 (goto-instrument --dfcc), SAT back end",
        "verifier_cmds": tr.cmds[-2:],
    }
    if trace:
        rec["script"] = extract_script(trace)
        rec["verifier_output"] = trace_summary(trace)
    else:
        rec["script"] = []
        rec["verifier_output"] = ["(no trace obtained: %s)" % "; ".join(tr.problems)]
    h = hashlib.sha1(json.dumps(rec, sort_keys=True, default=str).encode()).hexdigest()[:10]
    path = os.path.join(VERIF, "replays", "%s-%s-%s.json" % (prop, re.sub(r"[^\w.]+", "_", label), h))
    # native replay of the counterexample against the real code
    native = {"status": "not-attempted"}
    if trace and spec.get("native", True) and not spec.get("win"):
        try:
            import native as nat
            native = nat.replay(spec, rec, tier)
        except Exception as e:  # noqa: BLE001
            native = {"status": "error", "detail": str(e)}
    rec["native_replay"] = native
    with open(path, "w") as f:
        json.dump(rec, f, indent=1, default=str)
    reproduced = native.get("status") == "reproduced"
    return path, reproduced


# --------------------------------------------------------------------------
# known findings


def known_findings():
    """Lines `finding: property=<id> harness=<h> label=<label> exclude=<DEFINE> :: text`."""
    out = []
    p = os.path.join(VERIF, "known-findings.txt")
    if not os.path.exists(p):
        return out
    for line in open(p):
        line = line.strip()
        if not line.startswith("finding:"):
            continue
        head, _, text = line[len("finding:"):].partition("::")
        kv = dict(x.split("=", 1) for x in head.split())
        kv["text"] = text.strip()
        out.append(kv)
    return out


# --------------------------------------------------------------------------
# property check


TRUSTED = [
    "OS/libc contract layer /verif/os/os_posix.c (assumed, DESIGN §2.3): pipe close fcntl open dup2 fileno read write poll fork waitpid kill execvp _exit chdir getrlimit sigfillset sigemptyset pthread_sigmask sigaction clock_gettime malloc calloc realloc strdup getcwd",
    "model bound: descriptors that can be open are numbered < 32",
    "Linux read/write transfer at most 0x7ffff000 bytes per call",
    "virtual millisecond clock is non-decreasing and within (2^32, 2^52) (reproc reads CLOCK_REALTIME, which an administrator or NTP may step: a stepped wall clock is outside what the properties quantify over and is not modelled)",
    "CBMC 6.11.0: goto-cc C semantics for x86_64 Linux, DFCC contract instrumentation, built-in malloc/free/string models, MiniSat back end; machine integers are bit-vectors",
    "build configuration -DNDEBUG -DREPROC_MULTITHREADED (the baseline's): ASSERT() is compiled out",
    "sequential execution; no signal handler runs inside the library",
    "parent/child coupling across fork is rely/guarantee over the assumed pipe law (verif_read error-pipe clause)",
    "the environment interrupts the same system call (EINTR) at most VERIF_MAX_EINTR = 2 times in a row (unwinding assertions on)",
    "assumed OS laws of the contract layer: read returns 0 for a request of n > 0 bytes exactly at end of stream; a pipe created later is a new object; "
    "close releases the descriptor even when it reports an error (Linux); write of n > 0 bytes to a pipe never returns 0; "
    "the 4-byte reports on the fork/exec error pipes are read atomically or not at all",
    "process_fork_parent_st is the only harness built without REPROC_MULTITHREADED (sigprocmask path); everything else is decided for the baseline configuration",
]


def scan_assumes():
    out = []
    for sub in ("os", "harness", "contracts"):
        dd = os.path.join(VERIF, sub)
        for name in sorted(os.listdir(dd)):
            p = os.path.join(dd, name)
            if not os.path.isfile(p):
                continue
            for i, line in enumerate(open(p, errors="replace"), 1):
                if "__CPROVER_assume" in line and not line.lstrip().startswith(("*", "//", "/*", "#define")):
                    out.append("%s/%s:%d" % (sub, name, i))
    return out


def scan_repo_for_assumes():
    bad = []
    for root, _, files in os.walk(os.path.join(REPO, "reproc")):
        for n in files:
            if n.endswith((".c", ".h")):
                p = os.path.join(root, n)
                for i, line in enumerate(open(p, errors="replace"), 1):
                    if "__CPROVER_assume" in line:
                        bad.append("%s:%d" % (p, i))
    return bad


def check_property(prop, tier):
    t0 = time.time()
    seed = int(os.environ.get("VERIF_SEED", "0") or 0)
    hs = [s for s in specs.HARNESSES if prop in s["props"]]
    if tier == "quick":
        hs = [s for s in hs if not s.get("thorough_only")]
    if not hs:
        print("no harness serves %s" % prop)
        return 2
    kf = [k for k in known_findings() if prop in k.get("property", "").split(",")]
    results = []
    workers = min(int(os.environ.get("VERIF_JOBS", "14")), len(hs))
    with cf.ThreadPoolExecutor(max_workers=workers) as ex:
        futs = {}
        for s in hs:
            ex_defs = ["-D" + k["exclude"] for k in known_findings()
                       if k.get("harness") == s["name"] and k.get("exclude")]
            futs[ex.submit(run_harness, s, tier, ex_defs)] = s
        for f in cf.as_completed(futs):
            r = f.result()
            results.append(r)
            nfail = len(failures(r))
            log("[%s] %-28s %4d obligations, %d refuted, %.1fs%s" % (
                prop, r.name, len(r.obligations), nfail, r.wall_s,
                "  NO VERDICT: " + "; ".join(r.problems)[:300] if r.problems else ""))
    results.sort(key=lambda r: r.name)

    no_verdict = [r for r in results if r.problems]
    viol = []
    for r in results:
        for ob in failures(r, prop):
            viol.append((r, ob))

    rc = 0
    skipped = 0
    violation_lines = []
    if viol:
        rc = 1
        seen = set()
        skipped = 0
        for r, ob in viol:
            # one line per harness and labelled obligation; unlabelled (safety, frame,
            # loop) obligations are grouped by class
            key = (r.name, ob["label"] or ("%s checks in %s" % (ob["cls"], ob["fn"] or "?")))
            if key in seen:
                continue
            seen.add(key)
            if len(seen) > 4:
                skipped += 1
                continue
            path, reproduced = write_replay(prop, r, ob, tier)
            violation_lines.append("VIOLATION property=%s replay=%s obligation=%s harness=%s%s" % (
                prop, path, key[1], r.name, "" if reproduced else " no-failing-input-found"))
    elif no_verdict:
        rc = 2

    for k in kf:
        print("KNOWN-FINDING: property=%s %s [%s excluded by -D%s in harness %s]" % (
            prop, k["text"], k.get("label"), k.get("exclude"), k.get("harness")))

    write_evidence(prop, tier, seed, results, viol, time.time() - t0)

    for line in violation_lines:
        print(line)
    if viol and skipped:
        print("(%d further refuted obligations of %s not listed individually; see evidence/%s.json)" % (skipped, prop, prop))
    if rc == 2:
        for r in no_verdict:
            print("NO-VERDICT property=%s harness=%s: %s" % (prop, r.name, "; ".join(r.problems)[:600]))
    tot = sum(len(r.obligations) for r in results)
    print("%s: %d harnesses, %d obligations, %d refuted, exit %d (%.0fs)" % (
        prop, len(results), tot, len(viol), rc, time.time() - t0))
    return rc


def write_evidence(prop, tier, seed, results, viol, wall):
    obligations = 0
    discharged = 0
    byclass = {}
    harnesses = []
    samples = []
    functions = {"enforced": [], "replaced_by_contract": [], "inlined_via": []}
    bounded = []
    ncanary = 0
    for r in results:
        n = d = 0
        hc = {}
        for ob in r.obligations:
            if ob["label"] and ob["label"].startswith(("canary/", "reach/")):
                ncanary += ob["status"] != "SUCCESS"
                continue
            n += 1
            if ob["status"] == "SUCCESS":
                d += 1
            hc[ob["cls"]] = hc.get(ob["cls"], 0) + 1
            byclass[ob["cls"]] = byclass.get(ob["cls"], 0) + 1
            if ob["label"] and prop in props_of(ob["label"]) and len(samples) < 12:
                samples.append({"harness": r.name, "label": ob["label"], "cbmc_property": ob["id"],
                                "class": ob["cls"], "status": ob["status"],
                                "where": "%s:%s" % (os.path.relpath(ob["file"], "/") if ob["file"] else "", ob["line"])})
        obligations += n
        discharged += d
        s = r.spec
        harnesses.append({
            "name": r.name, "enforced": s.get("enforce"), "replaced": s.get("replace", []),
            "loop_contracts": bool(s.get("loop_contracts")),
            "unwind": s.get("unwind_" + tier, s.get("unwind")),
            "obligations": n, "discharged": d, "by_class": hc,
            "backend": "cbmc 6.11.0 / MiniSat 2.2.1 (default SAT)",
            "solver_s": round(r.solver_s, 2), "symex_s": round(getattr(r, "symex_s", 0.0), 2),
            "sat_variables_clauses": getattr(r, "sat_size", None), "wall_s": round(r.wall_s, 1),
            "bounded": s.get("bounded"), "no_verdict": r.problems,
            "second_backend": getattr(r, "cross_check", None),
            "partial": getattr(r, "partial", None),
            "what": s.get("what", ""),
        })
        if s.get("enforce"):
            functions["enforced"].append(s["enforce"])
        functions["replaced_by_contract"] += s.get("replace", [])
        if s.get("bounded"):
            bounded.append("%s: %s" % (r.name, s["bounded"]))
    functions["enforced"] = sorted(set(functions["enforced"]))
    functions["replaced_by_contract"] = sorted(set(functions["replaced_by_contract"]))
    meta = specs.PROPERTY_META.get(prop, {})
    level = meta.get("level", "proof")
    cov = {
        "obligations": obligations, "discharged": discharged,
        "checker_cmd": "goto-cc … && goto-instrument --dfcc harness --enforce-contract F [--replace-call-with-contract G]… [--apply-loop-contracts] && cbmc " + " ".join(CHECK_FLAGS) + " [--unwind K --unwinding-assertions]",
        "trusted_base": TRUSTED + meta.get("extra_assumptions", []),
        "functions_under_contract": functions,
        "harnesses": harnesses,
        "obligations_by_class": byclass,
        "canaries_checked_to_fail": ncanary,
        "bounded_parts": bounded,
        "not_decided": meta.get("not_decided", []),
        "samples": samples or [{"note": "no labelled obligation of this property in this run"}],
        "assume_statements": scan_assumes(),
        "assume_statements_in_repo": scan_repo_for_assumes(),
        "solver_s_total": round(sum(r.solver_s for r in results), 2),
        "explanation": meta.get("explanation", ""),
        # generic keys (for levels that fall back to them)
        "evaluations": obligations,
        "distinct_nontrivial": len({(o["label"] or o["id"]) for r in results for o in r.obligations}),
        "rule": "one evaluation = one proof obligation generated by CBMC/DFCC from /repo's current source; distinct = distinct (label or CBMC property id)",
    }
    ev = {
        "property_id": prop, "tier": tier, "seed": seed, "level": level,
        "coverage": cov,
        "assumptions": TRUSTED + meta.get("extra_assumptions", []) + ["bounded: " + b for b in bounded],
        "wall_s": round(wall, 1),
        "violations": len(viol),
    }
    # VERIF_EVIDENCE_DIR: runs against scratch trees (seeded changes) must not overwrite
    # the evidence of the unchanged tree
    evdir = os.environ.get("VERIF_EVIDENCE_DIR", os.path.join(VERIF, "evidence"))
    os.makedirs(evdir, exist_ok=True)
    with open(os.path.join(evdir, prop + ".json"), "w") as f:
        json.dump(ev, f, indent=1)


# --------------------------------------------------------------------------


def write_manifest():
    checks = []
    na = []
    for pid in sorted(specs.PROPERTY_META):
        m = specs.PROPERTY_META[pid]
        if not m.get("claimed"):
            na.append({"property_id": pid, "reason": m["reason"]})
            continue
        checks.append({
            "property_id": pid,
            "quick_cmd": "./verif check %s --tier quick" % pid,
            "thorough_cmd": "./verif check %s --tier thorough" % pid,
            "evidence_file": "/verif/evidence/%s.json" % pid,
            "replay_cmd_template": "./verif replay {path}",
            "engine": "cbmc-contracts",
            "level_claimed": {"category": m.get("level", "proof"), "text": m["text"],
                              "design_ref": m.get("design_ref", "")},
            "level_note": m["note"],
            "technique": m.get("technique", "CBMC code contracts (goto-instrument --dfcc), SAT back end"),
        })
    man = {
        "version": 1,
        "setup_cmd": "./verif setup",
        "hooks": {
            "guard": "REPROC_VERIF",
            "enable": "checks compile /repo's sources with goto-cc -DREPROC_VERIF (plus -DNDEBUG -DREPROC_MULTITHREADED, the baseline configuration)",
            "baseline_off_cmd": "cmake --build /repo/_build && ctest --test-dir /repo/_build -j8 --timeout 900",
            "source_commits": specs.HOOK_COMMITS,
            "add_only": specs.HOOKS_ADD_ONLY,
        },
        "engines": [{
            "name": "cbmc-contracts", "path": "/verif/lib/driver.py",
            "serves_properties": [c["property_id"] for c in checks],
            "kind_free_text": "contract-based deductive verification: CBMC 6.11.0 code contracts on the real C sources of /repo, "
                              "enforced per function by goto-instrument --dfcc, discharged by cbmc (SAT); OS/libc behaviour is an assumed contract layer; "
                              "counterexamples are replayed natively against the real functions (lib/native.py)",
        }],
        "checks": checks,
        "not_applicable": na,
        "notes": "exit 0: all obligations discharged; exit 1 + VIOLATION line: an obligation refuted; exit 2: no verdict (timeout, build error, vacuity guard). See DESIGN.md.",
    }
    with open(os.path.join(VERIF, "MANIFEST.json"), "w") as f:
        json.dump(man, f, indent=1)
    print("MANIFEST.json: %d checks, %d not applicable" % (len(checks), len(na)))
    return 0


def cmd_harness(args):
    tier = "quick"
    keep = False
    names = []
    defs = []
    explain = []
    brief = False
    i = 0
    while i < len(args):
        if args[i] == "--tier":
            tier = args[i + 1]
            i += 2
        elif args[i].startswith("-D"):
            defs.append(args[i])
            i += 1
        elif args[i] == "--brief":
            brief = True
            i += 1
        elif args[i] == "--explain":
            explain.append(args[i + 1])
            i += 2
        elif args[i] == "--all":
            names = [s["name"] for s in specs.HARNESSES]
            i += 1
        else:
            names.append(args[i])
            i += 1
    rc = 0
    todo = [s for s in specs.HARNESSES if s["name"] in names]
    if len(todo) != len(set(names)):
        print("unknown harness among", names)
        return 2
    with cf.ThreadPoolExecutor(max_workers=min(14, len(todo))) as ex:
        rs = list(ex.map(lambda s: run_harness(s, tier, defs), todo))
    for r in rs:
        fl = failures(r)
        print("== %s: %d obligations, %d refuted, solver %.1fs, wall %.1fs" % (
            r.name, len(r.obligations), len(fl), r.solver_s, r.wall_s))
        for p in r.problems:
            print("   NO-VERDICT:", p[:2000])
            rc = max(rc, 2)
        nunk = sum(1 for ob in r.obligations if ob["status"] in ("UNKNOWN", "ERROR"))
        if nunk:
            print("   (%d obligations UNKNOWN/ERROR: cut off by a failed unwinding assertion or a solver error)" % nunk)
        shown = 0
        for ob in r.obligations:
            if ob["status"] in ("UNKNOWN", "ERROR"):
                continue
            if brief and (ob["status"] == "SUCCESS" or (ob["label"] or "").startswith(("canary/", "reach/"))):
                continue
            if ob["label"] or ob["status"] != "SUCCESS":
                print("   %-8s %-55s %s %s:%s" % (ob["status"], ob["label"] or ob["id"], ob["cls"],
                                                   os.path.basename(ob["file"]), ob["line"]))
        if fl:
            rc = 1
            # which property checks would report this harness (attribution rules of failures())
            flagged = [q for q in sorted(set(r.spec["props"])) if failures(r, q)]
            print("   FLAGS    %s" % ",".join(flagged))
        for lab in explain:
            for ob in r.obligations:
                if (ob["label"] == lab or ob["id"] == lab) and ob["status"] != "SUCCESS":
                    tr = run_harness(r.spec, tier, defs, trace_props=[ob["id"]])
                    for o in tr.obligations:
                        if o["id"] == ob["id"] and "trace" in o:
                            print("---- counterexample for %s (%s)" % (lab, ob["id"]))
                            print("\n".join(trace_summary(o["trace"], 1000000)))
                    break
    return rc


def main():
    if len(sys.argv) < 2:
        print(__doc__)
        return 2
    c = sys.argv[1]
    if c == "check":
        prop = sys.argv[2]
        tier = os.environ.get("VERIF_TIER", "quick")
        if "--tier" in sys.argv:
            tier = sys.argv[sys.argv.index("--tier") + 1]
        return check_property(prop, tier)
    if c == "harness":
        return cmd_harness(sys.argv[2:])
    if c == "list":
        for s in specs.HARNESSES:
            print("%-30s %-22s E=%s R=%s" % (s["name"], ",".join(s["props"]), s.get("enforce"), ",".join(s.get("replace", []))))
        return 0
    if c == "replay":
        import native as nat
        return nat.cmd_replay(sys.argv[2])
    if c == "selftest":
        import selftest
        return selftest.main(sys.argv[2:])
    if c == "manifest":
        return write_manifest()
    if c == "setup":
        for tool in ("goto-cc", "goto-instrument", "cbmc", "gcc"):
            if not shutil.which(tool):
                print("missing tool", tool)
                return 2
        os.makedirs(BUILD, exist_ok=True)
        print("setup ok")
        return 0
    print(__doc__)
    return 2


if __name__ == "__main__":
    sys.exit(main())
