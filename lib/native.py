"""Native replay (DESIGN.md §2.9): the same harness, the real /repo functions and
the OS layer compiled with gcc; CBMC's nondeterministic choices are scripted."""
import json
import os
import re
import shutil
import subprocess

VERIF = os.path.dirname(os.path.dirname(os.path.abspath(__file__)))
REPO = os.environ.get("VERIF_REPO", "/repo")
SRC = os.path.join(REPO, "reproc", "src")
BUILD = os.path.join(VERIF, "build")

import specs  # noqa: E402


def _balanced(txt, i):
    """txt[i] == '(' -> index after the matching ')'."""
    depth = 0
    j = i
    while j < len(txt):
        if txt[j] == "(":
            depth += 1
        elif txt[j] == ")":
            depth -= 1
            if depth == 0:
                return j + 1
        j += 1
    raise ValueError("unbalanced")


def extract_clauses(spec, defs, incs, cbmc=False):
    """{fn: [(label, expr)]}: the ensures clauses of every contract visible to the
    harness, obtained by preprocessing the harness itself with -DVERIF_EXTRACT
    (ENS(label, e) then expands to a marker; see os/ghost.h)."""
    out = {}
    cmd = ["gcc", "-E", "-P", "-w", "-DVERIF_EXTRACT"] + ([] if cbmc else ["-DVERIF_NATIVE"]) + defs + incs + \
          ["-include", os.path.join(VERIF, "os", "rename.h")]
    for ch in spec.get("contracts", []):
        cmd += ["-include", os.path.join(VERIF, "contracts", ch)]
    cmd += [os.path.join(VERIF, "harness", spec["src"])]
    txt = subprocess.run(cmd, capture_output=True, text=True).stdout
    cur = None
    for m in re.finditer(r'@@FN\s+(\w+)\s+@@|@@ENS\s+"([^"]+)"\s+@@(.*?)@@END', txt, re.S):
        if m.group(1):
            cur = m.group(1)
            out.setdefault(cur, [])
        elif cur:
            out[cur].append((m.group(2), " ".join(m.group(3).split())))
    return out


def gen_includes(spec, d, defs, incs, cbmc=False):
    clauses = extract_clauses(spec, defs, incs, cbmc)
    htxt = open(os.path.join(VERIF, "harness", spec["src"])).read()
    os.makedirs(os.path.join(d, "gen"), exist_ok=True)
    for fn in set(re.findall(r'#include "gen/(?:pre|post|assume)_(\w+)\.inc"', htxt)):
        olds = []
        posts = []
        for label, expr in clauses.get(fn, []):
            # replace each __CPROVER_old(E) by a snapshot variable
            while True:
                k = expr.find("__CPROVER_old(")
                if k < 0:
                    break
                e = _balanced(expr, k + len("__CPROVER_old"))
                inner = expr[k + len("__CPROVER_old("):e - 1]
                if inner not in olds:
                    olds.append(inner)
                expr = expr[:k] + "verif_old_%s_%d" % (fn, olds.index(inner)) + expr[e:]
            if cbmc:
                posts.append('  __CPROVER_assert(%s, "%s");' % (expr, label))
            else:
                posts.append('  if (!(%s)) verif_assert_fail("%s", "contract of %s", 0);' % (expr, label, fn))
        with open(os.path.join(d, "gen", "pre_%s.inc" % fn), "w") as f:
            for i, inner in enumerate(olds):
                # snapshots through a pointer that may be NULL are taken only if it is not
                m = re.match(r"^\s*(?:\*\s*(\w+)\s*$|(\w+)\s*->|(\w+)\s*\[)", inner)
                base = m and (m.group(1) or m.group(2) or m.group(3))
                if base:
                    f.write("  __typeof__(%s) verif_old_%s_%d; if (%s) verif_old_%s_%d = (%s);\n" % (inner, fn, i, base, fn, i, inner))
                else:
                    f.write("  __typeof__(%s) verif_old_%s_%d = (%s);\n" % (inner, fn, i, inner))
        with open(os.path.join(d, "gen", "post_%s.inc" % fn), "w") as f:
            f.write("\n".join(posts) + "\n")
        # assume-form (for hand-written "replace by contract" stubs, see h_drain.c)
        with open(os.path.join(d, "gen", "assume_%s.inc" % fn), "w") as f:
            for label, expr in clauses.get(fn, []):
                e2 = expr
                while True:
                    k = e2.find("__CPROVER_old(")
                    if k < 0:
                        break
                    e = _balanced(e2, k + len("__CPROVER_old"))
                    inner = e2[k + len("__CPROVER_old("):e - 1]
                    e2 = e2[:k] + "verif_old_%s_%d" % (fn, olds.index(inner)) + e2[e:]
                f.write("  __CPROVER_assume(%s); /* %s */\n" % (e2, label))


def value_of(entry):
    b = entry.get("bin")
    v = entry.get("value")
    if isinstance(v, str) and v.upper() in ("TRUE", "FALSE"):
        return 1 if v.upper() == "TRUE" else 0
    if b and set(b) <= {"0", "1"}:
        n = int(b, 2)
        if b[0] == "1" and len(b) in (8, 16, 32, 64) and not entry["fn"].startswith(("nondet_u",)):
            n -= 1 << len(b)
        return n
    try:
        return int(re.sub(r"[uUlL]+$", "", str(v)))
    except ValueError:
        return 0


def build(spec, tier):
    d = os.path.join(BUILD, "native." + spec["name"])
    shutil.rmtree(d, ignore_errors=True)
    os.makedirs(d)
    incs = ["-I" + SRC, "-I" + os.path.join(REPO, "reproc", "include"), "-I" + os.path.join(VERIF, "os"),
            "-I" + os.path.join(VERIF, "contracts"), "-I" + os.path.join(VERIF, "harness"), "-I" + d]
    dd = dict(spec.get("defs", {}))
    dd.update(spec.get("defs_" + tier, {}))
    defs = [x for x in ["-DNDEBUG", "-DREPROC_MULTITHREADED", "-DREPROC_VERIF", "-DVERIF_NATIVE"] if x[2:] not in spec.get("undef", [])] + \
           ["-D%s=%s" % (k, v) if v is not None else "-D%s" % k for k, v in dd.items()]
    gen_includes(spec, d, defs, incs)
    pre = ["-include", os.path.join(VERIF, "os", "rename.h")]
    units = [(os.path.join(VERIF, "harness", spec["src"]), spec.get("contracts", []))]
    for t in specs.tus_of(spec):
        units.append((os.path.join(SRC, t), spec.get("tu_contracts", ["public.h"])))
    units.append((os.path.join(VERIF, "os", "os_posix.c"), []))
    for t in spec.get("extra", []):
        units.append((os.path.join(VERIF, t), []))
    objs = []
    for i, (src, chs) in enumerate(units):
        o = os.path.join(d, "u%d.o" % i)
        cmd = ["gcc", "-c", "-g", "-O0", "-w", "-fsanitize=address,undefined", "-fno-omit-frame-pointer"] + defs + incs + pre
        for ch in chs:
            cmd += ["-include", os.path.join(VERIF, "contracts", ch)]
        cmd += [src, "-o", o]
        p = subprocess.run(cmd, capture_output=True, text=True)
        if p.returncode != 0:
            raise RuntimeError("native build failed on %s: %s" % (src, p.stderr[-1500:]))
        objs.append(o)
    exe = os.path.join(d, "replay")
    cmd = ["gcc", "-g", "-fsanitize=address,undefined", "-w", os.path.join(VERIF, "native", "rt.c")] + objs + ["-o", exe]
    p = subprocess.run(cmd, capture_output=True, text=True)
    if p.returncode != 0:
        raise RuntimeError("native link failed: %s" % p.stderr[-1500:])
    return d, exe


def run_script(exe, d, script, seed=None):
    sp = os.path.join(d, "script.txt")
    with open(sp, "w") as f:
        for e in script:
            f.write("%s %d\n" % (e["fn"], value_of(e)))
    env = dict(os.environ, VERIF_SCRIPT=sp, ASAN_OPTIONS="detect_leaks=1:abort_on_error=0:exitcode=11",
               UBSAN_OPTIONS="print_stacktrace=1:halt_on_error=0")
    if seed is not None:
        env["VERIF_SEED"] = str(seed)
    else:
        env.pop("VERIF_SEED", None)
    try:
        p = subprocess.run([exe], capture_output=True, text=True, timeout=60, env=env)
        return p.returncode, p.stdout, p.stderr
    except subprocess.TimeoutExpired:
        return -1, "", "timeout"


def replay(spec, rec, tier):
    d, exe = build(spec, tier)
    label = rec["obligation"]["label"]
    cls = rec["obligation"]["class"]
    rc, out, err = run_script(exe, d, rec.get("script", []))
    failed = re.findall(r"^FAILED (\S+)", out, re.M)
    sanitizer = bool(re.search(r"AddressSanitizer|runtime error:|LeakSanitizer", err))
    res = {"exit": rc, "failed_labels": failed, "sanitizer_report": sanitizer,
           "stdout_tail": out.splitlines()[-12:], "stderr_tail": err.splitlines()[-12:]}
    labelled = "/" in label
    if labelled and label in failed:
        res["status"] = "reproduced"
    elif not labelled and sanitizer and cls not in ("postcondition", "precondition", "assertion"):
        res["status"] = "reproduced"
        res["note"] = "unlabelled safety obligation %s; native sanitizers report an error on the same input" % label
    else:
        # bounded search over the OS layer's choices after the scripted prefix
        res["status"] = "not-reproduced"
        base = int(os.environ.get("VERIF_SEED", "0") or 0)
        for k in range(1, 201):
            rc2, out2, err2 = run_script(exe, d, rec.get("script", []), seed=base * 1000 + k)
            f2 = re.findall(r"^FAILED (\S+)", out2, re.M)
            if labelled and label in f2:
                res["status"] = "reproduced"
                res["note"] = "reproduced by seeded search over OS-layer choices after the scripted prefix (seed %d)" % (base * 1000 + k)
                res["stdout_tail"] = out2.splitlines()[-12:]
                break
    return res


def cmd_replay(path):
    rec = json.load(open(path))
    spec = [s for s in specs.HARNESSES if s["name"] == rec["harness"]]
    if not spec:
        print("unknown harness", rec["harness"])
        return 2
    res = replay(spec[0], rec, rec.get("tier", "quick"))
    print(json.dumps(res, indent=1))
    print("obligation:", rec["obligation"]["label"], "->", res["status"])
    return 1 if res["status"] == "reproduced" else 0
