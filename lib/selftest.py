"""Self-test (DESIGN.md §2.8-5): small seeded mutants of /repo, applied to a scratch
copy outside /repo and /verif, each of which must be refuted by the obligation named
next to it. Usage: verif selftest [name-substring ...] [--jobs N]"""
import concurrent.futures as cf
import os
import shutil
import subprocess
import sys
import tempfile

VERIF = os.path.dirname(os.path.dirname(os.path.abspath(__file__)))

# (name, file, old, new, harness, label that must be refuted)
MUTANTS = [
    ("term_sends_kill", "process.posix.c", "kill(process, SIGTERM)", "kill(process, SIGKILL)", "process_terminate", "C07/process_terminate.sends_sigterm_once"),
    ("kill_sends_term", "process.posix.c", "kill(process, SIGKILL)", "kill(process, SIGTERM)", "process_kill", "C07/process_kill.sends_sigkill_once"),
    ("wait_wnohang", "process.posix.c", "waitpid(process, &status, 0)", "waitpid(process, &status, WNOHANG)", "process_wait", "C01/process_wait.status_means_reaped"),
    ("status_signal_offset", "process.posix.c", "WTERMSIG(status) + 128", "WTERMSIG(status) + 127", "parse_status", "C01/parse_status.signal_plus_128"),
    ("status_exit_mask", "process.posix.c", "WIFEXITED(status) ? WEXITSTATUS(status)", "WIFEXITED(status) ? (WEXITSTATUS(status) & 0x7f)", "parse_status", "C01/parse_status.exit_code_exact"),
    ("options_drop_handle_check", "options.c", "    ASSERT_EINVAL(redirect->handle);\n", "", "parse_options", "C13/parse_options.conflicts_rejected"),
    ("options_default_err_pipe", "options.c", "stream == REPROC_STREAM_ERR ? REPROC_REDIRECT_PARENT", "stream == REPROC_STREAM_IN ? REPROC_REDIRECT_PARENT", "parse_options", "C13+C10/parse_options.effective_stderr"),
]


def one(m, keep=False):
    name, file, old, new, harness, label = m
    top = tempfile.mkdtemp(prefix="verif-selftest-")
    try:
        shutil.copytree("/repo/reproc", os.path.join(top, "reproc"))
        p = os.path.join(top, "reproc", "src", file)
        s = open(p).read()
        if old not in s:
            return name, "MUTATION-DOES-NOT-APPLY", ""
        open(p, "w").write(s.replace(old, new, 1))
        env = dict(os.environ, VERIF_REPO=top, VERIF_BUILD_SUFFIX="." + name)
        r = subprocess.run([os.path.join(VERIF, "verif"), "harness", harness], capture_output=True, text=True, env=env)
        refuted = [l.split()[1] for l in r.stdout.splitlines() if l.strip().startswith("FAILURE") and "canary/" not in l]
        if label in refuted:
            return name, "caught", ", ".join(refuted)
        return name, "MISSED", "refuted: %s | %s" % (refuted, r.stdout[-400:])
    finally:
        shutil.rmtree(top, ignore_errors=True)


def main(args):
    sel = [a for a in args if not a.startswith("--")]
    ms = [m for m in MUTANTS if not sel or any(s in m[0] for s in sel)]
    bad = 0
    with cf.ThreadPoolExecutor(max_workers=8) as ex:
        for name, verdict, detail in ex.map(one, ms):
            print("%-32s %-10s %s" % (name, verdict, detail))
            if verdict != "caught":
                bad += 1
    print("%d mutants, %d not caught" % (len(ms), bad))
    return 0 if bad == 0 else 1
