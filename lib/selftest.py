"""Self-test (DESIGN.md §2.8-5): small seeded mutants of /repo, applied to a scratch
copy outside /repo and /verif, each of which must be refuted by the obligation named
next to it. Usage: verif selftest [name-substring ...] [--jobs N]"""
import concurrent.futures as cf
import os
import shutil
import subprocess
import sys
import tempfile

VERIF = os.path.dirname(os.path.dirname(os.path.abspath(__file__)))

# (name, file, old, new, harness, label that must be refuted)
MUTANTS = [
    ("term_sends_kill", "process.posix.c", "kill(process, SIGTERM)", "kill(process, SIGKILL)", "process_terminate", "C07/process_terminate.sends_sigterm_once"),
    ("kill_sends_term", "process.posix.c", "kill(process, SIGKILL)", "kill(process, SIGTERM)", "process_kill", "C07/process_kill.sends_sigkill_once"),
    ("wait_wuntraced", "process.posix.c", "waitpid(process, &status, 0)", "waitpid(process, &status, WUNTRACED)", "process_wait", "C01+INV/process_wait.status_means_reaped"),
    ("wait_wnohang", "process.posix.c", "waitpid(process, &status, 0)", "waitpid(process, &status, WNOHANG)", "process_wait", "C01+INV/process_wait.status_means_reaped"),
    ("status_signal_offset", "process.posix.c", "WTERMSIG(status) + 128", "WTERMSIG(status) + 127", "parse_status", "C01/parse_status.signal_plus_128"),
    ("status_exit_mask", "process.posix.c", "WIFEXITED(status) ? WEXITSTATUS(status)", "WIFEXITED(status) ? (WEXITSTATUS(status) & 0x7f)", "parse_status", "C01/parse_status.exit_code_exact"),
    ("options_drop_handle_check", "options.c", "    ASSERT_EINVAL(redirect->handle);\n", "", "parse_options", "C13/parse_options.conflicts_rejected"),
    ("path_direction_swapped", "redirect.posix.c", "stream == REPROC_STREAM_IN ? O_RDONLY : O_WRONLY", "stream == REPROC_STREAM_IN ? O_WRONLY : O_RDONLY", "redirect_init", "C10/redirect_init.path_opened_in_right_direction"),
    ("pipe_nonblocking_wrong_end", "redirect.c", "r = pipe_nonblocking(stream == REPROC_STREAM_IN ? pipe[1] : pipe[0],", "r = pipe_nonblocking(stream == REPROC_STREAM_IN ? pipe[0] : pipe[1],", "redirect_init", "C17/redirect_init.pipe_parent_end_mode_child_end_blocking"),
    ("pipe_ends_swapped_for_stdin", "redirect.c", "*parent = stream == REPROC_STREAM_IN ? pipe[1] : pipe[0];", "*parent = stream == REPROC_STREAM_ERR ? pipe[1] : pipe[0];", "redirect_init", "C10+INV/redirect_init.pipe_parent_holds_other_end"),
    ("destroy_closes_user_handle", "redirect.c", "    case REPROC_REDIRECT_PATH:\n      handle_destroy(child);", "    case REPROC_REDIRECT_PATH:\n    case REPROC_REDIRECT_HANDLE:\n      handle_destroy(child);", "redirect_destroy", "C05/redirect_destroy.never_closes_user_or_parent_streams"),
    ("path_without_cloexec", "redirect.posix.c", "mode | O_CREAT | O_CLOEXEC", "mode | O_CREAT", "redirect_init", "C11/redirect_init.created_descriptors_close_on_exec"),
    ("pipe_init_leaks_on_cloexec_failure", "pipe.posix.c", "finish:\n  pipe_destroy(pair[0]);\n  pipe_destroy(pair[1]);", "finish:\n  pipe_destroy(pair[0]);", "pipe_init", "C05/pipe_init.failure_leaves_no_descriptor"),
    ("pipe_read_empty_request_is_eof", "pipe.posix.c", "if (r == 0 && size > 0) {", "if (r == 0) {", "pipe_read", "C02/pipe_read.epipe_only_at_end_of_stream"),
    ("cloexec_zero_flags_is_error", "handle.posix.c", "  r = fcntl(handle, F_GETFD, 0);\n  if (r < 0) {", "  r = fcntl(handle, F_GETFD, 0);\n  if (r <= 0) {", "handle_cloexec", "C04/handle_cloexec.fails_only_when_the_os_refused"),
    ("pipe_read_eof_as_zero", "pipe.posix.c", "    return -EPIPE;\n  }\n\n  return r < 0 ? -errno : r;", "    return 0;\n  }\n\n  return r < 0 ? -errno : r;", "pipe_read", "C02/pipe_read.eof_is_epipe"),
    ("wait_keeps_exit_pipe", "reproc.c", "  process->pipe.exit = pipe_destroy(process->pipe.exit);\n\n  return process->status = r;", "  return process->status = r;", "reproc_wait", "C01/reproc_wait.status_is_exact_and_reaped_once"),
    ("wait_status_not_cached", "reproc.c", "  return process->status = r;", "  return r;", "reproc_wait", "C01/reproc_wait.status_is_exact_and_reaped_once"),
    ("wait_deadline_as_zero", "reproc.c", "    timeout = expiry(REPROC_INFINITE, process->deadline);\n", "    timeout = 0;\n", "reproc_wait", "C08/reproc_wait.until_deadline_waits_exactly_until_deadline"),
    ("terminate_after_exit_signals", "reproc.c", "  if (process->status >= 0) {\n    return 0;\n  }\n\n  return process_terminate(process->handle);", "  return process_terminate(process->handle);", "reproc_terminate", "C06/reproc_terminate.after_exit_sends_nothing"),
    ("stop_kill_and_terminate_swapped", "reproc.c", "      case REPROC_STOP_TERMINATE:\n        r = reproc_terminate(process);", "      case REPROC_STOP_TERMINATE:\n        r = reproc_kill(process);", "reproc_stop", "C07+C15/stop.signal_is_next_planned_step"),
    ("stop_ignores_terminate_failure", "reproc.c", "    if (r < 0) {\n      break;\n    }\n\n    r = reproc_wait(process, actions[i].timeout);", "    r = reproc_wait(process, actions[i].timeout);", "reproc_stop", "C07/reproc_stop.otherwise_error_of_failed_action"),
    ("stop_continues_after_status", "reproc.c", "    if (r != REPROC_ETIMEDOUT) {\n      break;\n    }\n  }\n\n  return r;", "    if (r < 0 && r != REPROC_ETIMEDOUT) {\n      break;\n    }\n  }\n\n  return r;", "reproc_stop", "C01+C07/reproc_stop.status_iff_reaped"),
    ("stop_default_policy_kill", "options.c", "stop.second.action = REPROC_STOP_TERMINATE;", "stop.second.action = REPROC_STOP_KILL;", "reproc_stop", "C07+C15/stop.signal_is_next_planned_step"),
    ("destroy_skips_stop", "reproc.c", "  if (process->status == STATUS_IN_PROGRESS) {\n    reproc_stop(process, process->stop);\n  }", "", "reproc_destroy", "C15/os.close.only_after_stop_sequence"),
    ("destroy_leaks_exit_pipe", "reproc.c", "  pipe_destroy(process->pipe.exit);\n\n  pipe_destroy(process->child.out);", "  pipe_destroy(process->child.out);", "reproc_destroy", "C05+C15/reproc_destroy.every_parent_end_closed_once"),
    ("destroy_stops_with_default_policy", "reproc.c", "    reproc_stop(process, process->stop);", "    reproc_stop(process, (reproc_stop_actions) REPROC_STOP_ACTIONS_NULL);", "reproc_destroy", "C07+C15/stop.wait_is_next_planned_step"),
    ("start_forgets_stop_policy", "reproc.c", "    process->stop = options.stop;\n", "", "reproc_start_parent", "C15/reproc_start.stop_policy_stored"),
    ("start_leaks_exit_pipe_on_failure", "reproc.c", "    process->pipe.exit = pipe_destroy(process->pipe.exit);\n    deinit();", "    deinit();", "reproc_start_parent", "C05/reproc_start.failure_leaves_no_descriptor"),
    ("start_keeps_childs_stdout_end", "reproc.c", "  child.out = redirect_destroy(child.out, options.redirect.out.type);\n  child.err", "  child.err", "reproc_start_parent", "C02+C05/reproc_start.childs_ends_closed_in_parent"),
    ("start_status_not_set", "reproc.c", "    process->status = STATUS_IN_PROGRESS;", "    process->status = STATUS_NOT_STARTED;", "reproc_start_parent", "C04+C06/reproc_start.success_is_running_child_that_executed"),
    ("start_deadline_absolute", "reproc.c", "process->deadline = now() + options.deadline;", "process->deadline = options.deadline;", "reproc_start_parent", "C08/reproc_start.deadline_is_now_plus_option"),
    ("signal_mask_st_success_is_error", "process.posix.c", "  r = r < 0 ? -errno : 0;\n#endif", "  r = r <= 0 ? -errno : 0;\n#endif", "process_fork_parent_st", ""),
    ("fork_mask_not_restored_in_parent", "process.posix.c", "    int q = signal_mask(SIG_SETMASK, &mask.old, &mask.old);\n    ASSERT_UNUSED(q == 0);\n\n    // Close the error pipe write end", "    int q = 0;\n\n    // Close the error pipe write end", "process_fork_parent", "C12/process_fork.parent_signal_mask_restored"),
    ("fork_child_keeps_mask", "process.posix.c", "  r = signal_mask(SIG_SETMASK, &mask.new, NULL);\n  if (r < 0) {\n    goto finish;\n  }", "", "process_fork_child", "C12/process_fork.child_clean_signal_state"),
    ("fork_child_skips_low_fds", "process.posix.c", "for (int i = 0; i <= max_fd; i++)", "for (int i = 3; i <= max_fd; i++)", "process_fork_child", "C11+C02/process_fork.child_keeps_only_excepted_descriptors"),
    ("fork_child_off_by_one_again", "process.posix.c", "for (int i = 0; i <= max_fd; i++)", "for (int i = 0; i < max_fd; i++)", "process_fork_child", "C11+C02/process_fork.child_keeps_only_excepted_descriptors"),
    ("start_fork_mode_env_freed", "process.posix.c", "    env = NULL;\n\n  child:", "  child:", "process_start_child", "C03/process_start.fork_mode_child_environment_is_the_requested_live_vector"),
    ("start_exit_handle_moved_after_dup2", "process.posix.c", "    options.handle.exit = r;\n\n    for (int i = 0; i < (int) ARRAY_SIZE(redirect); i++) {", "    for (int i = 0; i < (int) ARRAY_SIZE(redirect); i++) {", "process_start_child", "C01+C07+C08+C09+C11+C15/exec.exit_handle_inherited"),
    ("poll_accepts_empty_sources", "reproc.c", "  ASSERT_EINVAL(num_sources > 0);\n\n  size_t earliest", "  size_t earliest", "reproc_poll_1", "C14/poll.null_or_empty_sources_rejected_without_side_effect"),
    ("poll_reads_one_source_too_many", "reproc.c", "  if (first == REPROC_DEADLINE) {\n    for (size_t i = 0; i < num_sources; i++) {", "  if (first == REPROC_DEADLINE) {\n    for (size_t i = 0; i <= num_sources; i++) {", "reproc_poll_2", "reproc_poll.pointer_dereference"),
    ("poll_deadline_vs_infinite_timeout", "reproc.c", "if (r == 0 && first != timeout) {", "if (r == 0 && first < timeout) {", "reproc_poll_1", "C08/reproc_poll.infinite_timeout_returns_with_an_event"),
    ("start_policy_stored_before_process_start", "reproc.c", "  r = process_start(&process->handle, argv, process_options);\n", "  if (options.deadline != REPROC_INFINITE) {\n    process->deadline = now() + options.deadline;\n  }\n\n  r = process_start(&process->handle, argv, process_options);\n", "reproc_start_parent", "C04+C08+C15/reproc_start.failure_leaves_handle_not_started"),
    ("start_parent_keeps_error_pipe_write_end", "process.posix.c", "  // when it is closed on the child side as well.\n  pipe.write = pipe_destroy(pipe.write);\n", "  // when it is closed on the child side as well.\n", "process_start_parent", "C04/os.read.parent_closed_its_write_end_before_waiting_for_the_child"),
    ("prepend_cwd_truncates_the_directory", "process.posix.c", "    cwd[cwd_size + 1] = '\\0';", "    cwd[cwd_size - 1] = '\\0';", "path_prepend_cwd", "C03/path_prepend_cwd.current_directory_left_intact"),
    ("prepend_cwd_forgets_the_path", "process.posix.c", "  memcpy(cwd + cwd_size, path, path_size);\n", "", "path_prepend_cwd", "C03/path_prepend_cwd.path_copied_once_right_after_the_slash"),
    ("fd_in_set_reads_one_too_many", "process.posix.c", "  for (size_t i = 0; i < size; i++) {\n    if (fd == fd_set[i]) {", "  for (size_t i = 0; i <= size; i++) {\n    if (fd == fd_set[i]) {", "fd_in_set", "fd_in_set.pointer_dereference"),
    ("start_exit_handle_cloexec", "process.posix.c", "    r = handle_cloexec(options.handle.exit, false);", "    r = handle_cloexec(options.handle.exit, true);", "process_start_child", "C01+C07+C08+C09+C11+C15/exec.exit_handle_inherited"),
    ("start_chdir_after_exec_order", "process.posix.c", "    if (options.working_directory != NULL) {\n      r = chdir(options.working_directory);", "    if (options.working_directory == NULL) {\n      r = chdir(\".\");", "process_start_child", "C03/exec.working_directory"),
    ("start_env_not_installed", "process.posix.c", "    environ = env;\n", "", "process_start_child", "C03/exec.environment_is_parent_then_extra"),
    ("start_env_ignores_behavior", "process.posix.c", "options.env.behavior == REPROC_ENV_EMPTY ? NULL", "options.env.behavior == REPROC_ENV_EXTEND ? NULL", "process_start_child", "C03/exec.environment_is_parent_then_extra"),
    ("start_program_not_prefixed", "process.posix.c", "options.working_directory && path_is_relative(argv[0])", "options.working_directory && !path_is_relative(argv[0])", "process_start_child", "C03+C04/exec.program_is_argv0_or_cwd_prefixed"),
    ("start_pid_not_stored", "process.posix.c", "  *process = child;\n  r = 0;", "  r = 0;", "process_start_parent", "C04+C06+INV/process_start.success_is_live_child_that_executed"),
    ("start_child_failure_not_reaped", "process.posix.c", "    do {\n      r = waitpid(child, NULL, 0);\n    } while (r < 0 && errno == EINTR);\n    r = r < 0 ? -errno : -child_errno;\n    goto finish;", "    r = -child_errno;\n    goto finish;", "process_start_parent", "C04+C05+C06+INV/process_start.failure_leaves_no_child_and_no_pid"),
    ("setup_input_blocking", "reproc.c", "  r = pipe_nonblocking(*pipe, true);\n  if (r < 0) {\n    return r;\n  }\n", "", "setup_input", "C17/os.write.input_nonblocking"),
    ("setup_input_restarts", "reproc.c", "r = pipe_write(*pipe, data + written, size - written);", "r = pipe_write(*pipe, data, size - written);", "setup_input", "C02/os.write.input_cursor"),
    ("setup_input_keeps_closed_stdin_number", "reproc.c", "  *pipe = pipe_destroy(*pipe);\n\n  return 0;\n}\n\nstatic int expiry", "  pipe_destroy(*pipe);\n\n  return 0;\n}\n\nstatic int expiry", "setup_input", "C02+INV/setup_input.stdin_closed_after_input"),
    ("setup_input_keeps_stdin_open", "reproc.c", "  *pipe = pipe_destroy(*pipe);\n\n  return 0;\n}\n\nstatic int expiry", "  return 0;\n}\n\nstatic int expiry", "setup_input", "C02+INV/setup_input.stdin_closed_after_input"),
    ("win_join_forgets_separator_size", "process.windows.c", "      joined_size++; // Count whitespace.", "      ;", "win_argv_join", "C18/argv_join.buffer_has_room_for_every_argument"),
    ("win_quote_size_undercounts_backslashes", "process.windows.c", "      size += num_backslashes * 2 + 2;", "      size += num_backslashes * 2 + 1;", "win_argument_quoting", "C18/quote.bytes_written_equal_predicted_size"),
    ("win_quote_odd_backslashes", "process.windows.c", "      memset(dest, '\\\\', num_backslashes * 2 + 1);\n      dest += num_backslashes * 2 + 1;", "      memset(dest, '\\\\', num_backslashes * 2);\n      dest += num_backslashes * 2;", "win_argument_quoting", "C18/quote.argument_survives_standard_parsing"),
    ("win_env_size_forgets_terminator", "process.windows.c", "    joined_size += strlen(env[i]) + 1; // Count the NUL terminator.", "    joined_size += strlen(env[i]);", "win_env_block", "C18/env_join_size.entries_plus_terminators_plus_final_nul"),
    ("poll_source_without_deadline_displaces", "reproc.c", "    if (process == NULL || process->deadline == REPROC_INFINITE) {", "    if (process == NULL) {", "find_earliest_deadline", "C08/poll.find_earliest.earliest_absolute_deadline_whatever_the_order"),
    ("strv_concat_drops_last_extra", "strv.c", "  STRV_FOREACH(j, b) {\n    r[c] = str_dup(*j);", "  STRV_FOREACH(j, b) {\n    if (j[1] == NULL) { size--; break; }\n    r[c] = str_dup(*j);", "strv_concat", "C03/strv_concat.parent_entries_then_extra_entries_copied_byte_for_byte"),
    ("win_argv_join_counts_only_the_last_space", "process.windows.c", "    joined_size += argument_escaped_size(argv[i]);\n\n    if (argv[i + 1] != NULL) {", "    joined_size += argument_escaped_size(argv[i]);\n\n    if (argv[i + 1] == NULL) {", "win_argv_join", "argv_join.pointer_dereference"),
    ("strv_concat_frees_callers_vector", "strv.c", "    STRV_FOREACH(i, r) {\n      free(*i);\n    }\n\n    free(r);", "    STRV_FOREACH(i, a) {\n      free(*i);\n    }\n\n    free(r);", "strv_concat", ""),
    ("strv_concat_null_for_empty_vectors", "strv.c", "  char **r = calloc(size, sizeof(char *));", "  if (size == 1) {\n    return NULL;\n  }\n\n  char **r = calloc(size, sizeof(char *));", "strv_concat", "C04+C05+C06/strv_concat.null_only_when_allocation_failed"),
    ("strv_concat_leaks_on_failure", "strv.c", "    STRV_FOREACH(i, r) {\n      free(*i);\n    }\n\n    free(r);\n\n    return NULL;", "    free(r);\n\n    return NULL;", "strv_concat", "__CPROVER__start.memory-leak.1"),
    ("sink_string_no_terminator", "drain.c", "  (*string)[string_size + size] = '\\0';", "  ;", "sink_string", "C16/sink_string.nul_terminated"),
    ("sink_string_loses_output_on_enomem", "drain.c", "  if (r == NULL) {\n    return REPROC_ENOMEM;\n  }", "  if (r == NULL) {\n    free(*string);\n    *string = NULL;\n    return REPROC_ENOMEM;\n  }", "sink_string", "C16/sink_string.allocation_failure_keeps_previous_output"),
    ("run_skips_destroy_on_start_failure", "run.c", "  r = reproc_start(process, argv, options);\n  if (r < 0) {\n    goto finish;\n  }", "  r = reproc_start(process, argv, options);\n  if (r < 0) {\n    return r;\n  }", "reproc_run_ex", "C05+C16/run.destroy_is_last_and_exactly_once"),
    ("run_ignores_drain_error", "run.c", "  r = reproc_drain(process, out, err);\n  if (r < 0) {\n    goto finish;\n  }", "  r = reproc_drain(process, out, err);", "reproc_run_ex", "C16/run.stop_after_successful_drain"),
    ("path_relative_accepts_plain_name", "process.posix.c", "strchr(path + 1, '/') != NULL", "1", "path_is_relative", "C03/path_is_relative.non_empty_not_absolute_with_directory_component"),
    ("path_any_long_path_with_late_separator", "process.posix.c", "strchr(path + 1, '/') != NULL", "memchr(path + 1, '/', strlen(path) > 64 ? 64 : strlen(path)) != NULL", "path_is_relative_any", "C03/path_is_relative.non_empty_not_absolute_with_directory_component"),
    ("path_any_scan_past_the_terminator", "process.posix.c", "return strlen(path) > 0 && path[0] != '/' && strchr(path + 1, '/') != NULL;", "return path[0] != '/' && strchr(path + 1, '/') != NULL;", "path_is_relative_any", "C14/path_is_relative.scan_starts_inside_the_string"),
    ("path_any_absolute_counts_as_relative", "process.posix.c", "strlen(path) > 0 && path[0] != '/' && strchr", "strlen(path) > 0 && strchr", "path_is_relative_any", "C03/path_is_relative.non_empty_not_absolute_with_directory_component"),
    ("prepend_realloc_one_short", "process.posix.c", "realloc(cwd, cwd_size + path_size + 1)", "realloc(cwd, cwd_size + path_size)", "path_prepend_cwd", "path_prepend_cwd.pointer_dereference"),
    ("prepend_leaks_on_getcwd_error", "process.posix.c", "    if (errno != ERANGE) {\n      free(cwd);\n      return NULL;\n    }", "    if (errno != ERANGE) {\n      return NULL;\n    }", "path_prepend_cwd", "__CPROVER__start.memory-leak.1"),
    ("prepend_no_separator", "process.posix.c", "  if (cwd[cwd_size - 1] != '/') {", "  if (0) {", "path_prepend_cwd", "C03/path_prepend_cwd.cwd_then_one_slash_then_path"),
    ("drain_sinks_swapped", "drain.c", "reproc_sink sink = stream == REPROC_STREAM_OUT ? out : err;", "reproc_sink sink = stream == REPROC_STREAM_OUT ? err : out;", "reproc_drain", "C16/drain.chunk_goes_to_the_sink_of_its_stream_with_its_tag"),
    ("drain_initial_tag_wrong", "drain.c", "  r = err.function(REPROC_STREAM_IN, &initial, 0, err.context);", "  r = err.function(REPROC_STREAM_ERR, &initial, 0, err.context);", "reproc_drain", "C16/drain.second_call_is_err_sink_empty_with_input_tag"),
    ("drain_skips_close_notification", "drain.c", "    if (r < 0 && r != REPROC_EPIPE) {\n      break;\n    }", "    if (r == REPROC_EPIPE) {\n      continue;\n    }\n    if (r < 0) {\n      break;\n    }", "reproc_drain", "C16/drain.loop_invariant_preserved_by_an_arbitrary_iteration"),
    ("drain_ignores_sink_failure", "drain.c", "    r = sink.function(stream, buffer, bytes_read, sink.context);\n    if (r != 0) {\n      break;\n    }", "    r = sink.function(stream, buffer, bytes_read, sink.context);\n    if (r < 0) {\n      break;\n    }", "reproc_drain", "C16/drain.loop_invariant_preserved_by_an_arbitrary_iteration"),
    ("drain_deadline_as_success", "drain.c", "      r = REPROC_ETIMEDOUT;\n      break;", "      r = 0;\n      break;", "reproc_drain", "C16/drain.zero_only_when_both_output_streams_are_closed"),
    ("start_error_pipe_read_not_retried", "process.posix.c", "  do {\n    r = (int) read(pipe.read, &child_errno, sizeof(child_errno));\n  } while (r < 0 && errno == EINTR);", "  r = (int) read(pipe.read, &child_errno, sizeof(child_errno));", "process_start_parent", "C04+C06+INV/process_start.success_is_live_child_that_executed"),
    ("fork_waitpid_not_retried", "process.posix.c", "      do {\n        r = waitpid(child, NULL, 0);\n      } while (r < 0 && errno == EINTR);", "      r = waitpid(child, NULL, 0);", "process_fork_parent", "C04+C05/process_fork.failure_leaves_no_child"),
    ("redirect_fallback_not_recorded", "redirect.c", "          redirect->type = REPROC_REDIRECT_DISCARD;", "          ;", "redirect_init", "C05/redirect_init.null_device_fallback_is_recorded_for_release"),
    ("read_wrong_stream", "reproc.c", "pipe_type *pipe = stream == REPROC_STREAM_OUT ? &process->pipe.out\n                                                : &process->pipe.err;", "pipe_type *pipe = stream == REPROC_STREAM_OUT ? &process->pipe.err\n                                                : &process->pipe.out;", "reproc_read", "C02/reproc_read.one_read_on_that_stream"),
    ("read_epipe_not_sticky", "reproc.c", "  if (r == REPROC_EPIPE) {\n    *pipe = pipe_destroy(*pipe);\n  }", "  if (r == REPROC_EPIPE) {\n    pipe_destroy(*pipe);\n  }", "reproc_read", "C02/reproc_read.epipe_is_sticky"),
    ("close_not_idempotent", "reproc.c", "      process->pipe.in = pipe_destroy(process->pipe.in);\n      return 0;", "      pipe_destroy(process->pipe.in);\n      return 0;", "reproc_close", "C02+C14/reproc_close.closes_exactly_that_stream"),
    ("now_wrong_unit", "clock.posix.c", "timespec.tv_nsec / 1000000", "timespec.tv_nsec / 100000", "now", "C08/now.is_os_clock_in_ms"),
    ("options_default_err_pipe", "options.c", "stream == REPROC_STREAM_ERR ? REPROC_REDIRECT_PARENT", "stream == REPROC_STREAM_IN ? REPROC_REDIRECT_PARENT", "parse_options", "C13+C10/parse_options.effective_stderr"),
]


def one(m, keep=False):
    name, file, old, new, harness, label = m
    top = tempfile.mkdtemp(prefix="verif-selftest-")
    try:
        shutil.copytree("/repo/reproc", os.path.join(top, "reproc"))
        p = os.path.join(top, "reproc", "src", file)
        s = open(p).read()
        if old not in s:
            return name, "MUTATION-DOES-NOT-APPLY", ""
        open(p, "w").write(s.replace(old, new, 1))
        env = dict(os.environ, VERIF_REPO=top, VERIF_BUILD_SUFFIX="." + name)
        defs = []
        r = subprocess.run([os.path.join(VERIF, "verif"), "harness", harness] + defs, capture_output=True, text=True, env=env)
        refuted = [l.split()[1] for l in r.stdout.splitlines() if l.strip().startswith("FAILURE") and "canary/" not in l and "reach/" not in l]
        hit = label in refuted or any(x.startswith(label) for x in refuted)
        if "NO-VERDICT" in r.stdout and not hit:
            return name, "NO-VERDICT", r.stdout[-300:]
        if hit:
            return name, "caught", ", ".join(refuted)
        return name, "MISSED", "refuted: %s | %s" % (refuted, r.stdout[-400:])
    finally:
        shutil.rmtree(top, ignore_errors=True)


def main(args):
    sel = [a for a in args if not a.startswith("--")]
    ms = [m for m in MUTANTS if not sel or any(s in m[0] for s in sel)]
    bad = 0
    with cf.ThreadPoolExecutor(max_workers=8) as ex:
        for name, verdict, detail in ex.map(one, ms):
            print("%-32s %-10s %s" % (name, verdict, detail))
            if verdict != "caught":
                bad += 1
    print("%d mutants, %d not caught" % (len(ms), bad))
    return 0 if bad == 0 else 1
