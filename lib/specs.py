"""Harness table (DESIGN.md §2.5): which function is enforced against its
contract (E), which callees are replaced by their contracts (R), what is linked
and inlined (I), and the bounds in force."""

POSIX_TUS = ["reproc.c", "options.c", "redirect.c", "redirect.posix.c", "pipe.posix.c",
             "handle.posix.c", "process.posix.c", "strv.c", "drain.c", "run.c",
             "clock.posix.c", "init.posix.c", "error.posix.c"]


def tus_except(*names):
    return [t for t in POSIX_TUS if t not in names]


def tus_of(spec):
    """Real /repo TUs linked into a harness: all of them, except those the
    harness file #includes textually (to reach their static functions)."""
    if spec.get("win"):
        return spec.get("tus", [])
    if "tus" in spec:
        return spec["tus"]
    return tus_except(*spec.get("includes", []))


HARNESSES = [
    {
        "name": "parse_options",
        "props": ["C13", "C10", "C08", "C15", "C07", "C02"],
        "safety_props": ["C13"],
        "src": "h_parse_options.c",
        "contracts": ["public.h"],
        "includes": ["options.c"],
        "enforce": "parse_options",
        "what": "parse_options (with parse_redirect, redirect_is_set, parse_stop_actions inlined) "
                "against the documentation transcribed in contracts/spec_options.h; every field of "
                "reproc_options symbolic; loop-free, hence complete",
    },
]

HOOK_COMMITS = ["bc22210"]
HOOKS_ADD_ONLY = False  # the hook token is inserted inside three existing loop-header lines

HARNESSES += [
    {
        "name": "parse_status", "props": ["C01"], "src": "h_parse_status.c",
        "contracts": ["public.h"], "includes": ["process.posix.c"], "enforce": "parse_status",
        "what": "parse_status over the full int domain against a decode written from the POSIX wait-status layout",
    },
    {
        "name": "process_wait", "props": ["C01", "C06", "C05"], "src": "h_process_wait.c",
        "contracts": ["public.h"], "enforce": "process_wait",
        "what": "process_wait: exactly one blocking waitpid on the own, unreaped child; exact status; no reap on error",
    },
    {
        "name": "process_terminate", "props": ["C07", "C06", "C05"], "src": "h_process_signal.c",
        "contracts": ["public.h"], "enforce": "process_terminate", "defs": {"WHICH_TERMINATE": None},
        "what": "process_terminate sends SIGTERM once to the own, unreaped child",
    },
    {
        "name": "process_kill", "props": ["C07", "C06", "C05"], "src": "h_process_signal.c",
        "contracts": ["public.h"], "enforce": "process_kill", "defs": {"WHICH_KILL": None},
        "what": "process_kill sends SIGKILL once to the own, unreaped child",
    },
]

HARNESSES += [
    {
        "name": "now", "props": ["C08"], "src": "h_now.c", "contracts": ["public.h"], "enforce": "now",
        "what": "now() returns the OS clock in milliseconds (the virtual clock is defined from the timespec the "
                "clock_gettime contract answers); replaced by this contract everywhere else because 64-bit "
                "division makes the SAT instances of its callers explode",
    },
]


def ll(name, props, what, **kw):
    d = {"name": name, "props": props, "src": "h_lowlevel.c", "contracts": ["public.h"],
         "enforce": name, "defs": {"LL_" + name: None, "VERIF_MAX_BUF": "(1ul<<40)"}, "what": what}
    d.update(kw)
    return d


HARNESSES += [
    ll("handle_destroy", ["C05", "C14"], "handle_destroy: closes exactly the given library-owned descriptor, once; -1 is a no-op"),
    ll("pipe_destroy", ["C05", "C14"], "pipe_destroy: as handle_destroy"),
    ll("handle_cloexec", ["C11", "C04"], "handle_cloexec sets/clears FD_CLOEXEC on exactly that descriptor, reports -errno"),
    ll("pipe_nonblocking", ["C17", "C04"], "pipe_nonblocking sets/clears O_NONBLOCK on exactly that descriptor"),
    ll("pipe_init", ["C05", "C11", "C17", "C10", "C04", "C14"],
       "pipe_init under every subset of failing OS calls: two fresh close-on-exec blocking ends, or nothing left behind"),
    ll("pipe_read", ["C02", "C17", "C05", "C14"], "pipe_read: one read as asked, result is the kernel's, EOF is EPIPE"),
    ll("pipe_write", ["C02", "C17", "C05", "C14"], "pipe_write: one write as asked, result is the kernel's"),
]


HARNESSES += [
    {"name": "redirect_init", "props": ["C10", "C05", "C17", "C11", "C04", "C13", "C14"], "src": "h_redirect.c",
     "contracts": ["public.h"], "enforce": "redirect_init", "defs": {"RD_init": None},
     "what": "redirect_init for every redirect type, stream, nonblocking flag and fileno answer, with every OS call "
             "fallible; redirect_pipe/parent/discard/file/path, pipe_init, pipe_nonblocking inlined"},
    {"name": "redirect_destroy", "props": ["C05", "C14"], "src": "h_redirect.c",
     "contracts": ["public.h"], "enforce": "redirect_destroy", "defs": {"RD_destroy": None},
     "what": "redirect_destroy closes exactly what the library opened (PIPE/DISCARD/PATH), never a user handle, FILE or parent stream"},
]


HARNESSES += [
    {"name": "setup_input", "props": ["C02", "C17", "C05", "C04", "C13", "C14", "C09"], "src": "h_setup_input.c",
     "contracts": ["public.h"], "includes": ["reproc.c"], "enforce": "setup_input", "loop_contracts": True,
     "replace": ["now"], "defs": {"VERIF_LOOP_CONTRACTS": None, "VERIF_MAX_BUF": "(1ul<<40)"},
     "what": "setup_input with a loop contract (invariant: cursor == written, nothing slept; variant size - written): "
             "any input size, any sequence of partial writes; pipe_nonblocking, pipe_write, pipe_destroy inlined"},
]


HARNESSES += [
    {"name": "fd_in_set", "props": ["C11"], "src": "h_process_static.c", "contracts": ["public.h"],
     "includes": ["process.posix.c"], "enforce": "fd_in_set", "defs": {"PS_fd_in_set": None}, "unwind": 10,
     "what": "fd_in_set over a 6-entry set (the size process_start passes), loop fully unrolled"},
    {"name": "get_max_fd", "props": ["C11", "C04"], "src": "h_process_static.c", "contracts": ["public.h"],
     "includes": ["process.posix.c"], "enforce": "get_max_fd", "defs": {"PS_get_max_fd": None},
     "what": "get_max_fd for every soft limit value"},
    {"name": "process_fork_parent", "props": ["C12", "C05", "C04", "C06"], "src": "h_process_fork.c",
     "contracts": ["public.h"], "includes": ["process.posix.c"], "enforce": "process_fork",
     "defs": {"SIDE_PARENT": None}, "unwind": 34,
     "what": "process_fork, parent side of fork, every OS call fallible: mask and descriptors restored on every return, "
             "success is a live child, failure leaves no child"},
    {"name": "process_fork_parent_st", "props": ["C12", "C04"], "src": "h_process_fork.c",
     "contracts": ["public.h"], "includes": ["process.posix.c"], "enforce": "process_fork",
     "defs": {"SIDE_PARENT": None}, "undef": ["REPROC_MULTITHREADED"], "unwind": 34,
     "what": "process_fork, parent side, in the single-threaded build configuration (REPROC_MULTITHREADED off: "
             "signal_mask goes through sigprocmask, -1/errno convention)"},
    {"name": "process_fork_child", "props": ["C11", "C12", "C04", "C10", "C02"], "src": "h_process_fork.c",
     "contracts": ["public.h"], "includes": ["process.posix.c"], "enforce": "process_fork",
     "replace": ["fd_in_set"], "loop_contracts": True,
     "defs": {"SIDE_CHILD": None, "VERIF_LOOP_CONTRACTS": None}, "unwind": 34, "must_fail": ["reach/_exit"],
     "pre_unwind": [{"function": "process_fork", "bound": 34}],
     "what": "process_fork, child side: signal reset loop (32, fully unrolled), close-all loop closed by a loop contract "
             "(unbounded up to the 1 Mi cap), failures reported through the error pipe (_exit contract)"},
]


HARNESSES += [
    {"name": "process_start_parent", "props": ["C04", "C05", "C06", "C12", "C03"], "src": "h_process_start.c",
     "contracts": ["public.h"], "includes": ["process.posix.c", "strv.c"], "enforce": "process_start",
     "replace": ["process_fork", "path_prepend_cwd"],
     "defs": {"SIDE_PARENT": None}, "unwind": 10,
     "what": "process_start, parent side, every OS call fallible, process_fork/path_prepend_cwd "
             "replaced by their contracts, strv_concat/strv_free by executable contracts (stubs in the harness): success is a live child that executed the program, failure leaves nothing"},
    {"name": "process_start_child", "props": ["C10", "C11", "C12", "C03", "C04", "C01", "C08", "C09", "C07", "C15"], "src": "h_process_start.c",
     "contracts": ["public.h"], "includes": ["process.posix.c", "strv.c"], "enforce": "process_start",
     "replace": ["process_fork", "path_prepend_cwd"],
     "defs": {"SIDE_CHILD": None}, "unwind": 10, "unwindset": ["harness.0:34"], "no_leak_check": True, "must_fail": ["reach/exec", "reach/_exit"],
     "what": "process_start, child side: symbolic, possibly aliasing child handles; the execvp contract of the OS layer "
             "asserts stream identity and direction, close-on-exec of everything else, the exit handle, signal state, "
             "program, argv, environment and working directory; failures go through the error pipe"},
]


START_REPLACED = ["parse_options", "redirect_init", "redirect_destroy", "setup_input", "process_start", "now"]
HARNESSES += [
    {"name": "reproc_start_parent", "props": ["C04", "C05", "C06", "C10", "C12", "C13", "C14", "C02", "C17", "C15", "C08"],
     "src": "h_reproc_start.c", "contracts": ["public.h"], "includes": ["reproc.c"], "enforce": "reproc_start",
     "replace": START_REPLACED, "defs": {"SIDE_PARENT": None}, "unwind": 24,
     "what": "reproc_start, parent side: every option field symbolic, any handle state; parse_options, redirect_init (x3), "
             "redirect_destroy (x3), setup_input, process_start, now replaced by their contracts; pipe_init and "
             "pipe_destroy inlined with every OS call fallible"},
    {"name": "reproc_start_child", "props": ["C14", "C04"],
     "src": "h_reproc_start.c", "contracts": ["public.h"], "includes": ["reproc.c"], "enforce": "reproc_start",
     "replace": START_REPLACED, "defs": {"SIDE_CHILD": None}, "unwind": 24, "no_leak_check": True,
     "what": "reproc_start as seen by the fork-mode child (process_start returns 0 there)"},
]


HARNESSES += [
    {"name": "find_earliest_deadline", "props": ["C08"], "src": "h_poll.c", "contracts": ["public.h"],
     "includes": ["reproc.c", "clock.posix.c"], "enforce": "find_earliest_deadline",
     "defs": {"POLL_find_earliest_deadline": None, "VERIF_NSRC": "3"}, "unwind": 5,
     "bounded": "exactly 3 poll sources, any of which may be process-less (so 0..3 effective sources in any order); loop fully unrolled; everything else symbolic",
     "what": "find_earliest_deadline against absolute deadlines: sources in any order, process-less sources and "
             "sources without deadline interleaved, shared handles allowed; expiry inlined, now by contract"},
]


def poll_h(n, thorough_only=False):
    return {"name": "reproc_poll_%d" % n, "props": ["C09", "C08", "C14", "C05", "C04"], "src": "h_poll.c",
            "contracts": ["public.h"], "includes": ["reproc.c", "clock.posix.c"], "light": True, "light_fn": "reproc_poll",
            "defs": {"POLL_reproc_poll": None, "VERIF_NSRC": str(n)}, "unwind": 4 * n + 2,
            "timeout": 1500, "timeout_thorough": 7200, "thorough_only": thorough_only,
            "bounded": "exactly %d poll source(s); loops over sources[] and pipes[] fully unrolled; interests, timeout, "
                       "deadlines, pipe states, handle sharing, kernel answers symbolic" % n,
            "what": "reproc_poll with %d source(s) (find_earliest_deadline, expiry, contains_valid_pipe, pipe_poll inlined; now "
                    "by contract); the ensures clauses of reproc_poll's contract are asserted after the call by plain CBMC "
                    "('light' enforcement: DFCC's write-set instrumentation of this function took > 25 min), the frame is "
                    "asserted explicitly; the self-recursive call is unreachable on POSIX (child.out/err are always invalid) "
                    "and cut by the unwinding bound with its unwinding assertion on" % n}


HARNESSES += [poll_h(1), poll_h(2), poll_h(3), poll_h(4, thorough_only=True)]
# reproc_drain (C16) calls reproc_poll with one source and assumes its whole
# contract (replaced by hand in h_drain.c): every obligation of reproc_poll_1 is
# a premise of C16
HARNESSES[-4]["props"] = HARNESSES[-4]["props"] + ["C16"]
HARNESSES[-4]["assumed_by"] = ["C16"]


HARNESSES += [
    {"name": "reproc_drain", "props": ["C16", "C14"], "src": "h_drain.c", "contracts": ["public.h"],
     "includes": ["reproc.c", "drain.c"], "light": True, "native": False,
     "defs": {"VERIF_DRAIN_INDUCTION": None}, "unwind": 6,
     "what": "reproc_drain, unbounded in the number of chunks: the for(;;) loop is closed by induction over a loop "
             "invariant written out in C through the REPROC_VERIF_LOOP(drain) hook (base case, havoc, assume, one "
             "arbitrary iteration, step case); reproc_poll and reproc_read are replaced by their contracts by hand "
             "(assigns havocked, ensures assumed, generated from the contract text); sinks feed a monitor of the "
             "documented protocol and may fail at any call. Plain CBMC (DFCC's loop-contract instrumentation of this "
             "function did not finish within 25 minutes)"},
]


HARNESSES += [
    {"name": "strv_concat", "props": ["C03", "C05", "C04", "C06", "C12"], "safety_props": ["C03", "C12"], "src": "h_strv.c", "contracts": ["public.h"],
     "defs": {"STRV_concat": None, "VERIF_NVEC": "2"}, "defs_thorough": {"VERIF_NVEC": "3"}, "unwind": 8, "unwind_thorough": 10,
     "bounded": "vectors of at most 2 (quick) / 3 (thorough) entries, strings of at most 2 characters",
     "what": "real strv_concat and strv_free with allocation failure at every malloc: contents law, NULL only with ENOMEM, "
             "nothing leaked on any path (CBMC leak check)"},
    {"name": "path_prepend_cwd", "props": ["C03", "C04", "C05"], "src": "h_path_prepend.c", "contracts": ["public.h"],
     "includes": ["process.posix.c"], "defs": {"VERIF_GROW": "3", "VERIF_OWN_GETCWD": None},
     "defs_thorough": {"VERIF_GROW": "6"}, "unwind": 6, "unwind_thorough": 9, "object_bits": 8,
     "bounded": "current directory shorter than 16 KiB (quick) / 28 KiB (thorough), i.e. at most 3 / 6 buffer growth steps; "
                "path length symbolic up to 2^30; byte contents abstracted (ghost string lengths)",
     "what": "path_prepend_cwd: every access inside the buffer it allocated for any path length, result layout cwd + '/' + path "
             "+ NUL, NULL with errno set and nothing leaked on any failure (getcwd error, calloc/realloc failure)"},
    {"name": "path_is_relative", "props": ["C03", "C14"], "src": "h_path.c", "contracts": ["public.h"],
     "includes": ["process.posix.c"], "defs": {"VERIF_PATHLEN": "4"}, "defs_thorough": {"VERIF_PATHLEN": "7"},
     "unwind": 7, "unwind_thorough": 10,
     "bounded": "path strings of at most 4 (quick) / 7 (thorough) characters (CBMC's strlen/strchr models unrolled)",
     "what": "path_is_relative against the documented meaning of a relative program path"},
    {"name": "path_is_relative_any", "props": ["C03", "C14"], "src": "h_path.c", "contracts": ["public.h"],
     "includes": ["process.posix.c"], "defs": {"VERIF_PATH_ANY": None}, "unwind": 2, "object_bits": 8,
     "what": "path_is_relative for ANY string length up to 2^30 (loop-free: strlen/strchr are executable contracts over a ghost "
             "description of the string and assert that their argument lies inside it): documented meaning, no scan started "
             "outside the string"},
]


HARNESSES += [
    {"name": "reproc_run_ex", "props": ["C16", "C05"], "src": "h_run.c", "contracts": [],
     "tus": ["error.posix.c"], "defs": {"RUN_ex": None},
     "what": "reproc_run_ex against logging executable contracts of reproc_new/start/drain/stop/destroy: fork rejected, "
             "first failing step's error returned, else the stop result; destroy exactly once and last on every path"},
    {"name": "reproc_run", "props": ["C16"], "src": "h_run.c", "contracts": [],
     "tus": ["error.posix.c"], "defs": {"RUN_plain": None},
     "what": "reproc_run: parent redirection unless discard/file/path, then as reproc_run_ex"},
    {"name": "sink_string", "props": ["C16", "C05"], "src": "h_sink_string.c", "contracts": ["public.h"],
     "includes": ["drain.c"], "defs": {"VERIF_SLEN": "3"}, "defs_thorough": {"VERIF_SLEN": "5"}, "unwind": 8, "unwind_thorough": 12,
     "bounded": "previous output of at most 3 (quick) / 5 (thorough) characters, at most as many new bytes",
     "what": "sink_string (through reproc_sink_string): appends exactly the bytes received after the previous content, "
             "NUL-terminated; on allocation failure the previous output is untouched and still owned by the caller"},
]


def win(name, define, what, bounded, q, t, unwind_q, unwind_t, **kw):
    d = {"name": name, "props": ["C18"], "src": "h_win_quote.c", "contracts": [], "win": True, "tus": [],
         "defs": dict({define: None}, **q), "defs_thorough": t, "unwind": unwind_q, "unwind_thorough": unwind_t,
         "bounded": bounded, "what": what, "native": False, "timeout": 900, "timeout_thorough": 3600}
    if define != "WIN_argv_join":
        d["may_not_fire"] = ["C18/argv_join.buffer_has_room_for_every_argument"]
    d.update(kw)
    return d


HARNESSES += [
    win("win_argument_quoting", "WIN_argument",
        "real argument_should_escape / argument_escaped_size / argument_escape of process.windows.c on one fully symbolic "
        "argument: size prediction exact, all writes in bounds (CBMC bounds checks on a buffer of exactly the predicted "
        "size), and the output parsed by an independent transcription of the MS C runtime rules is exactly the input",
        "argument length <= 4 (quick) / 6 (thorough) bytes, every byte symbolic",
        {"VERIF_ARGLEN": "4"}, {"VERIF_ARGLEN": "6"}, 16, 24),
    win("win_argv_join", "WIN_argv_join",
        "real argv_join with argument_escaped_size / argument_escape replaced by their contracts: the buffer has room for "
        "every argument (precondition of argument_escape at each call site), single spaces between, NUL at the exact end",
        "at most 3 (quick) / 4 (thorough) arguments; argument sizes symbolic up to 2*len+2",
        {"VERIF_ARGLEN": "4", "VERIF_NARGS": "3"}, {"VERIF_ARGLEN": "6", "VERIF_NARGS": "4"}, 12, 18,
        replace=["argument_escaped_size", "argument_escape"]),
    win("win_env_block", "WIN_env",
        "real env_join_size / env_join: entries in order, each NUL-terminated, closed by a final NUL, size exact",
        "at most 2 entries of at most 3 (quick) / 4 (thorough) bytes",
        {"VERIF_ARGLEN": "3", "VERIF_NARGS": "2"}, {"VERIF_ARGLEN": "4", "VERIF_NARGS": "3"}, 12, 16),
]


def winp(which, props):
    return {"name": "win_process_" + which, "props": props, "src": "h_win_process.c", "contracts": [], "win": True, "tus": [],
            "defs": {"WINP_" + which: None}, "native": False,
            "what": "real process_%s of process.windows.c (compiled against the stub windows.h) against executable contracts "
                    "of the Win32 calls it makes; loop-free, full domain of exit codes" % which}


HARNESSES += [winp("wait", ["C01"]), winp("terminate", ["C07"]), winp("kill", ["C07"])]


def api(name, props, what, **kw):
    d = {"name": "reproc_" + name, "props": props, "src": "h_api.c", "contracts": ["public.h"],
         "includes": ["reproc.c"], "enforce": "reproc_" + name, "defs": {"API_" + name: None, "VERIF_MAX_BUF": "(1ul<<40)"},
         "what": what, "unwind": 4, "replace": ["now"]}
    d.update(kw)
    return d


HARNESSES += [
    api("wait", ["C01", "C08", "C14", "C06", "C07", "C05", "C04"],
        "reproc_wait on a handle in any state satisfying the invariant, any timeout; pipe_poll, expiry, now, "
        "process_wait, pipe_destroy inlined down to the OS layer"),
    api("new", ["C14", "C15", "C05"], "reproc_new: NULL on allocation failure or a fresh handle in the not-started state satisfying "
        "the invariant; destroying it touches nothing and frees it (leak check)"),
    api("terminate", ["C07", "C06", "C14"], "reproc_terminate on any handle state"),
    api("kill", ["C07", "C06", "C14"], "reproc_kill on any handle state"),
    api("pid", ["C14"], "reproc_pid on any handle state"),
    api("close", ["C02", "C14", "C05", "C06"], "reproc_close, any stream value, any handle state"),
    api("read", ["C02", "C17", "C14", "C05", "C06", "C16"], "reproc_read, any stream value, any size with a matching buffer or NULL "
        "(reproc_drain, C16, assumes this whole contract)", assumed_by=["C16"]),
    api("write", ["C02", "C17", "C14", "C05", "C06"], "reproc_write, any size with a matching buffer or NULL"),
    api("stop", ["C07", "C01", "C14", "C05", "C08", "C15", "C06"],
        "reproc_stop with reproc_wait/terminate/kill inlined down to the OS layer; the three-iteration loop is "
        "fully unrolled (unwinding assertion on); every OS-level step is checked by the stop-sequence monitor "
        "against the plan computed by an independent specification", unwind=5),
    api("destroy", ["C15", "C05", "C14", "C07", "C06"],
        "reproc_destroy on a handle in any state, any stored stop policy, any deadline; reproc_stop and everything "
        "below inlined; the monitor checks the stop steps and that nothing is released before the sequence is over; "
        "the handle is freed (leak check)", unwind=5),
]

ALL_FUNCTIONS = set()
for _h in HARNESSES:
    if _h.get("enforce"):
        ALL_FUNCTIONS.add(_h["enforce"])
    ALL_FUNCTIONS.update(_h.get("replace", []))

NOT_YET = "no check built for it yet in this round (see DESIGN.md §0 for the planned contract route)"

OS_NOTE = ("Relative to the assumed OS/libc contract layer (os/os_posix.c), descriptors < 32 in the model, NDEBUG + "
           "REPROC_MULTITHREADED configuration, sequential execution. ")

PROPERTY_META = {
    "C01": {"claimed": True, "level": "proof",
        "text": "parse_status over the full int domain; process_wait, reproc_wait, reproc_stop enforced on a handle in any state "
                "satisfying the representation invariant INV (so the per-call contracts compose over all call histories): exact "
                "status, cached status returned without touching the OS, one blocking waitpid on the own child only after the "
                "exit pipe was reported ready, reaps == 1.",
        "note": OS_NOTE + "That the kernel closes the exit pipe exactly at child exit is assumed. Windows not covered.",
        "design_ref": "§3 C01", "not_decided": ["Windows: only process_wait's status mapping (harness win_process_wait); reproc_wait's socket-based exit detection is not covered"]},
    "C02": {"claimed": True, "level": "proof",
        "text": "The library's share of stream fidelity: pipe_read/pipe_write/reproc_read/reproc_write ask the kernel exactly once, on "
                "the right descriptor, with the caller's buffer and size, and report what the kernel said; EPIPE only when read "
                "returned 0, sticky afterwards; setup_input delivers every byte in order (cursor checked in the write contract, loop "
                "closed by a loop contract for any size), then closes stdin; reproc_start closes every child-side end in the parent.",
        "note": OS_NOTE + "The kernel's pipe semantics (bytes once, in order) are assumed. Windows sockets path not covered.",
        "design_ref": "§3 C02", "not_decided": ["pipe.windows.c"]},
    "C04": {"claimed": True, "level": "proof",
        "text": "process_fork, process_start (both sides of fork) and reproc_start enforced with every OS call allowed to fail with any "
                "errno at every call (all subsets of failing calls at once): failure leaves handle NOT_STARTED, no child, no "
                "descriptor; the returned error is the first failed call's errno or the child's report; success means a live child "
                "with positive pid whose fate is 'executed'. The child reports the error that stopped it (checked in the _exit contract).",
        "note": OS_NOTE + "Parent/child coupling is rely/guarantee over the assumed error-pipe law. EINTR on the error-pipe read and the "
                "reaping waitpid is retried by the library; the model interrupts at most twice in a row (environment bound, "
                "retry loops fully unrolled with unwinding assertions).",
        "design_ref": "§3 C04"},
    "C05": {"claimed": True, "level": "proof",
        "text": "Descriptor ledger (bit masks) in the OS layer: close() asserts 'open and opened by the library' at every call reached "
                "from any enforced function (no foreign close, no double close); every function's contract states the ledger after in "
                "terms of the ledger before (pipe_init, redirect_init/destroy, setup_input, process_*, reproc_start/close/read/write/"
                "wait/stop/destroy); CBMC's memory-leak and pointer checks are on with allocation failure injected at every malloc.",
        "note": OS_NOTE,
        "design_ref": "§3 C05"},
    "C06": {"claimed": True, "level": "proof",
        "text": "kill() and waitpid() in the OS layer assert 'pid > 0, the ledger's own child, live and unreaped'; discharged from INV in "
                "reproc_wait/terminate/kill/stop/destroy and from the process_start contract (success implies *process == child pid > 0).",
        "note": OS_NOTE, "design_ref": "§3 C06"},
    "C07": {"claimed": True, "level": "proof",
        "text": "reproc_stop enforced with everything inlined down to the OS layer (three-iteration loop fully unrolled, unwinding "
                "assertion on); a stop-sequence monitor in the kill/poll/waitpid contracts checks each OS-level step against the plan "
                "computed from the actions by an independent specification (order, at most once, right signal, right timeout, "
                "escalation only after the wait expired); return value: status iff reaped, ETIMEDOUT iff every wait expired, "
                "otherwise the failed action's error.",
        "note": OS_NOTE, "design_ref": "§3 C07"},
    "C10": {"claimed": True, "level": "proof",
        "text": "parse_options (effective type per stream), redirect_init per type (pipe ends and direction, parent stream or null "
                "device, /dev/null, path opened O_RDONLY/O_WRONLY, user handle/FILE, stderr->stdout), reproc_start (parent holds a pipe "
                "end exactly for piped streams), and the child side of process_start against the execvp launch contract: object "
                "identity and direction of descriptors 0,1,2, not close-on-exec.",
        "note": OS_NOTE + "The child handles are symbolic and may alias each other and descriptors 0, 1, 2 in any way (no exclusion).",
        "design_ref": "§3 C10", "not_decided": ["redirect.windows.c"]},
    "C11": {"claimed": True, "level": "proof",
        "text": "Child side of process_fork with the close-all loop closed by a loop contract (unbounded up to the 1 Mi cap): every "
                "descriptor below the soft limit that is not excepted is closed; pipe_init/redirect_init: everything the library "
                "creates is close-on-exec; execvp contract: every open descriptor other than 0,1,2 and the exit handle is close-on-exec, "
                "the exit handle is not.",
        "note": OS_NOTE + "Sequential: descriptors opened concurrently by other threads between pipe() and fcntl(FD_CLOEXEC) are outside "
                "the argument. Assumes no descriptor at or above the soft limit is open.",
        "design_ref": "§3 C11", "not_decided": ["concurrent starts from several threads", "Windows inherit list"]},
    "C12": {"claimed": True, "level": "proof",
        "text": "Parent side of process_fork/process_start/reproc_start: signal mask, dispositions, cwd and environ equal their entry "
                "values on every return path, under every subset of failing calls; sigaction/chdir/dup2/_exit/execvp assert 'child side "
                "only'. Child side: empty mask and default dispositions 1..31 at execvp and at the fork-mode return.",
        "note": OS_NOTE + "The restoring pthread_sigmask call itself is assumed to succeed (as the property allows).",
        "design_ref": "§3 C12"},
    "C13": {
        "claimed": True, "level": "proof",
        "text": "parse_options is enforced against an independent transcription of the documented option rules "
                "(contracts/spec_options.h) with every field of reproc_options symbolic; the function is loop-free, "
                "so the discharged obligations cover all inputs. reproc_start's 'nothing happens before validation' "
                "is a postcondition over the OS-call counter and the descriptor ledger.",
        "note": "Trusted: CBMC/DFCC, the transcription of reproc.h into spec_options.h, NDEBUG configuration. "
                "Out-of-range redirect types are outside the documented domain: only 'returns 0 or EINVAL' is claimed for them.",
        "technique": "CBMC code contracts (DFCC), SAT back end, full symbolic domain, loop-free",
        "design_ref": "§3 C13",
        "not_decided": ["Windows front end (same options.c, but redirect.windows.c differs)"],
    },
    "C14": {"claimed": True, "level": "proof",
        "text": "Every API function of reproc.c is enforced on a handle in an arbitrary state satisfying the representation invariant "
                "INV, requires INV and ensures INV: by induction no finite call sequence leaves it, and the state-dependent results "
                "(EINVAL before start / in the fork child / on NULL, EPIPE on closed or unpiped streams, idempotent close, start on a "
                "started handle rejected) are postconditions. CBMC's bounds, pointer, overflow, shift, division and leak checks are on "
                "in each of these harnesses with fully symbolic parameters.",
        "note": OS_NOTE + "reproc_poll/drain/run are covered under C08/C09/C16. Redirect types outside the enumeration are not covered for reproc_start.",
        "extra_assumptions": ["path_is_relative_any (and path_prepend_cwd): strlen / strchr / memcpy are executable contracts written from ISO C 7.24 over ghost facts about the string (length, first byte, index of the first '/' at or after 1) instead of byte loops; the byte-level harness path_is_relative cross-checks them on short strings"],
        "design_ref": "§3 C14"},
    "C15": {"claimed": True, "level": "proof",
        "text": "reproc_destroy enforced with reproc_stop and everything below inlined: on a running handle the stored stop policy is "
                "executed (monitor), nothing is closed or freed before the sequence has run as far as it can, then every parent end is "
                "closed once and the handle freed (leak check); default policy: wait(deadline), SIGTERM only after the deadline passed, "
                "wait(infinite) - on return the child is reaped unless a system call failed. reproc_start stores the parsed policy.",
        "note": OS_NOTE + "The C++ destructor path is not decidable with this tool chain.",
        "design_ref": "§3 C15", "not_decided": ["reproc++ destructor"]},
    "C17": {"claimed": True, "level": "proof",
        "text": "Ghost O_NONBLOCK bit per descriptor and a 'may block' flag set by every OS contract that is allowed to sleep: "
                "redirect_init gives the parent's pipe end the requested mode and leaves the child's end blocking; with the nonblocking "
                "option reproc_read/reproc_write leave 'may block' unchanged and map EAGAIN to REPROC_EWOULDBLOCK; setup_input switches "
                "the pipe to nonblocking before the first byte (asserted in the write contract) for any input size.",
        "note": OS_NOTE + "Windows not covered.", "design_ref": "§3 C17", "not_decided": ["pipe.windows.c"]},
    "C03": {"claimed": True, "level": "proof",
        "text": "Child side of process_start against the execvp launch contract: the program is a copy of argv[0] or cwd/argv[0] "
                "(by provenance; computed before chdir), argv is the caller's vector itself (hence byte for byte), environ is the "
                "vector built from the parent's entries (when extending) then the extra entries, chdir(wd) happened iff requested. "
                "strv_concat contents law, path_is_relative and path_prepend_cwd (memory safety for any path length, clean "
                "failure) are decided in their own harnesses.",
        "note": OS_NOTE + "Unbounded: process_start (structure, provenance). Bounded and labelled so: strv_concat (vector/"
                "string sizes), path_is_relative at byte level (string length; decided for ANY length by the loop-free harness "
                "path_is_relative_any, strlen/strchr assumed per ISO C over ghost string facts), path_prepend_cwd (number of buffer growth steps; path length "
                "is unbounded). execvp's PATH search is the kernel/libc's. Windows CreateProcessW path not covered.",
        "extra_assumptions": ["path_is_relative_any (and path_prepend_cwd): strlen / strchr / memcpy are executable contracts written from ISO C 7.24 over ghost facts about the string (length, first byte, index of the first '/' at or after 1) instead of byte loops; the byte-level harness path_is_relative cross-checks them on short strings"],
        "design_ref": "§3 C03", "not_decided": ["execvp PATH search", "Windows process_start"]},
    "C08": {"claimed": True, "level": "proof",
        "text": "expiry, now, reproc_wait (timeout returned only after the full timeout with the exit pipe not ready; until-deadline "
                "waits exactly until the deadline) and reproc_start (deadline = now + option) are proved without bound. "
                "find_earliest_deadline and reproc_poll are decided for 1, 2 and 3 sources (4 in the thorough tier) with everything "
                "else symbolic: the timeout handed to poll is the smaller of the timeout and the time to the earliest absolute "
                "deadline; timeout first -> 0 without events; deadline first -> 1 with only the deadline event on an earliest "
                "source; expired deadline -> reported at once without touching the OS.",
        "note": OS_NOTE + "BOUNDED in the number of poll sources (not counted as proved for arbitrary counts). The clock is assumed "
                "non-decreasing. reproc_poll is checked in 'light' mode (contract clauses asserted by plain CBMC, frame asserted "
                "explicitly) because DFCC's write-set instrumentation of this function did not finish.",
        "design_ref": "§3 C08"},
    "C09": {"claimed": True, "level": "model_checking",
        "text": "reproc_poll for 1, 2 and 3 sources (4 thorough), interests, pipe states, handle sharing, process-less sources and "
                "kernel answers symbolic: the kernel is asked about exactly the requested valid streams with the right direction; "
                "events are exactly what the kernel reported for those streams; subset of interests plus deadline; process-less "
                "sources report nothing; result = number of sources with events; EPIPE iff nothing requested can be polled.",
        "note": OS_NOTE + "BOUNDED in the number of poll sources; complete within the bound (all loops fully unrolled, unwinding "
                "assertions on). That a reported event means the next operation will not block is the poll contract, assumed. Windows not covered.",
        "design_ref": "§3 C09", "not_decided": ["pipe.windows.c", "more than 4 sources"]},
    "C16": {"claimed": True, "level": "proof",
        "text": "reproc_drain with its loop closed by a loop contract over a ghost monitor of the sink protocol (reproc_poll and "
                "reproc_read by contract, sinks failing at any call, any number of chunks); reproc_run_ex/reproc_run against "
                "logging executable contracts of their five callees (destroy exactly once and last on every path, first error "
                "returned, else the stop result); sink_string bounded in content.",
        "note": OS_NOTE + "sink_string contents are bounded (labelled). The C++ drain/run templates are not decidable with this tool chain.",
        "design_ref": "§3 C16", "not_decided": ["reproc++ drain.hpp / run.hpp"]},
    "C18": {"claimed": True, "level": "model_checking",
        "text": "The real process.windows.c compiled against a stub <windows.h>: per argument, bytes written == predicted size, "
                "nothing written past it, and an independent transcription of the MS C runtime's argument splitting applied to "
                "the output yields exactly the input (empty string, spaces, tabs, newline, vertical tab, quotes, backslash runs); "
                "argv_join modularly (room for every argument, single spaces, NUL at the exact end); env_join/env_join_size layout.",
        "note": "BOUNDED in argument / entry length and count (stated per harness); complete within the bound. UTF-16 conversion "
                "and env_concat over the parent block (wcslen/wcscpy on a Windows-provided block) are external and not covered.",
        "design_ref": "§3 C18", "not_decided": ["env_concat", "utf.windows.c"]},
    "C19": {"claimed": False, "reason": "reproc++ is C++11 over libstdc++; cbmc 6.11.0's C++ front end cannot parse it and rejects contract syntax; a hand translation would be a model (DESIGN §8)"},
    "C20": {"claimed": False, "reason": "the claim ranges over thread interleavings; CBMC code contracts are sequential and cannot state read frames (DESIGN §8)"},
}
for _i in range(1, 21):
    PROPERTY_META.setdefault("C%02d" % _i, {"claimed": False, "reason": NOT_YET})

# Properties stated over histories of API calls on one handle: the representation
# invariant INV is their induction hypothesis. Every harness that enforces an API
# function (INV required and ensured) and every harness with a clause INV-keeping
# rests on (label token INV) serves all of them.
HISTORY_PROPS = ["C01", "C02", "C04", "C05", "C06", "C07", "C08", "C09", "C14", "C15", "C16", "C17"]
INV_HARNESSES = ["reproc_start_parent", "reproc_start_child", "reproc_wait", "reproc_new", "reproc_terminate", "reproc_kill",
                 "reproc_pid", "reproc_close", "reproc_read", "reproc_write", "reproc_stop", "reproc_destroy",
                 "handle_destroy", "pipe_destroy", "redirect_destroy", "redirect_init", "setup_input", "pipe_init",
                 "process_start_parent", "process_wait"]
for _h in HARNESSES:
    if _h["name"] in INV_HARNESSES:
        _h["props"] = list(_h["props"]) + [p for p in HISTORY_PROPS if p not in _h["props"]]

# C14 ends "no sequence of calls with valid pointers causes a crash, memory error or
# undefined behaviour" and C05 "no ... memory ... leak": the unlabelled memory-safety /
# undefined-behaviour obligations of every POSIX harness belong to C14 and its leak
# obligations to C05 (driver.failures), so every such harness serves both.
for _h in HARNESSES:
    if not _h.get("win"):
        _h["props"] = list(_h["props"])
        if "C14" not in _h["props"]:
            _h["props"].append("C14")
        if "C05" not in _h["props"] and not _h.get("no_leak_check"):
            _h["props"].append("C05")

for _h in HARNESSES:
    if _h["name"] in ("now", "reproc_stop", "reproc_destroy", "reproc_start_parent", "reproc_poll_3", "process_fork_child"):
        _h["cross_check"] = True
