"""Harness table (DESIGN.md §2.5): which function is enforced against its
contract (E), which callees are replaced by their contracts (R), what is linked
and inlined (I), and the bounds in force."""

POSIX_TUS = ["reproc.c", "options.c", "redirect.c", "redirect.posix.c", "pipe.posix.c",
             "handle.posix.c", "process.posix.c", "strv.c", "drain.c", "run.c",
             "clock.posix.c", "init.posix.c", "error.posix.c"]


def tus_except(*names):
    return [t for t in POSIX_TUS if t not in names]


def tus_of(spec):
    """Real /repo TUs linked into a harness: all of them, except those the
    harness file #includes textually (to reach their static functions)."""
    if spec.get("win"):
        return spec.get("tus", [])
    if "tus" in spec:
        return spec["tus"]
    return tus_except(*spec.get("includes", []))


HARNESSES = [
    {
        "name": "parse_options",
        "props": ["C13", "C10", "C08", "C15", "C07"],
        "safety_props": ["C13"],
        "src": "h_parse_options.c",
        "contracts": ["public.h"],
        "includes": ["options.c"],
        "enforce": "parse_options",
        "what": "parse_options (with parse_redirect, redirect_is_set, parse_stop_actions inlined) "
                "against the documentation transcribed in contracts/spec_options.h; every field of "
                "reproc_options symbolic; loop-free, hence complete",
    },
]

HOOK_COMMITS = ["bc22210"]
HOOKS_ADD_ONLY = False  # the hook token is inserted inside three existing loop-header lines

HARNESSES += [
    {
        "name": "parse_status", "props": ["C01"], "src": "h_parse_status.c",
        "contracts": ["public.h"], "includes": ["process.posix.c"], "enforce": "parse_status",
        "what": "parse_status over the full int domain against a decode written from the POSIX wait-status layout",
    },
    {
        "name": "process_wait", "props": ["C01", "C06", "C05"], "src": "h_process_wait.c",
        "contracts": ["public.h"], "enforce": "process_wait",
        "what": "process_wait: exactly one blocking waitpid on the own, unreaped child; exact status; no reap on error",
    },
    {
        "name": "process_terminate", "props": ["C07", "C06", "C05"], "src": "h_process_signal.c",
        "contracts": ["public.h"], "enforce": "process_terminate", "defs": {"WHICH_TERMINATE": None},
        "what": "process_terminate sends SIGTERM once to the own, unreaped child",
    },
    {
        "name": "process_kill", "props": ["C07", "C06", "C05"], "src": "h_process_signal.c",
        "contracts": ["public.h"], "enforce": "process_kill", "defs": {"WHICH_KILL": None},
        "what": "process_kill sends SIGKILL once to the own, unreaped child",
    },
]

HARNESSES += [
    {
        "name": "now", "props": ["C08"], "src": "h_now.c", "contracts": ["public.h"], "enforce": "now",
        "what": "now() returns the OS clock in milliseconds (the virtual clock is defined from the timespec the "
                "clock_gettime contract answers); replaced by this contract everywhere else because 64-bit "
                "division makes the SAT instances of its callers explode",
    },
]


def ll(name, props, what, **kw):
    d = {"name": name, "props": props, "src": "h_lowlevel.c", "contracts": ["public.h"],
         "enforce": name, "defs": {"LL_" + name: None, "VERIF_MAX_BUF": "(1ul<<40)"}, "what": what}
    d.update(kw)
    return d


HARNESSES += [
    ll("handle_destroy", ["C05", "C14"], "handle_destroy: closes exactly the given library-owned descriptor, once; -1 is a no-op"),
    ll("pipe_destroy", ["C05", "C14"], "pipe_destroy: as handle_destroy"),
    ll("handle_cloexec", ["C11", "C04"], "handle_cloexec sets/clears FD_CLOEXEC on exactly that descriptor, reports -errno"),
    ll("pipe_nonblocking", ["C17", "C04"], "pipe_nonblocking sets/clears O_NONBLOCK on exactly that descriptor"),
    ll("pipe_init", ["C05", "C11", "C17", "C10", "C04", "C14"],
       "pipe_init under every subset of failing OS calls: two fresh close-on-exec blocking ends, or nothing left behind"),
    ll("pipe_read", ["C02", "C17", "C05", "C14"], "pipe_read: one read as asked, result is the kernel's, EOF is EPIPE"),
    ll("pipe_write", ["C02", "C17", "C05", "C14"], "pipe_write: one write as asked, result is the kernel's"),
]


HARNESSES += [
    {"name": "redirect_init", "props": ["C10", "C05", "C17", "C11", "C04", "C13", "C14"], "src": "h_redirect.c",
     "contracts": ["public.h"], "enforce": "redirect_init", "defs": {"RD_init": None},
     "what": "redirect_init for every redirect type, stream, nonblocking flag and fileno answer, with every OS call "
             "fallible; redirect_pipe/parent/discard/file/path, pipe_init, pipe_nonblocking inlined"},
    {"name": "redirect_destroy", "props": ["C05", "C14"], "src": "h_redirect.c",
     "contracts": ["public.h"], "enforce": "redirect_destroy", "defs": {"RD_destroy": None},
     "what": "redirect_destroy closes exactly what the library opened (PIPE/DISCARD/PATH), never a user handle, FILE or parent stream"},
]


HARNESSES += [
    {"name": "setup_input", "props": ["C02", "C17", "C05", "C04", "C13", "C14"], "src": "h_setup_input.c",
     "contracts": ["public.h"], "includes": ["reproc.c"], "enforce": "setup_input", "loop_contracts": True,
     "replace": ["now"], "defs": {"VERIF_LOOP_CONTRACTS": None, "VERIF_MAX_BUF": "(1ul<<40)"},
     "what": "setup_input with a loop contract (invariant: cursor == written, nothing slept; variant size - written): "
             "any input size, any sequence of partial writes; pipe_nonblocking, pipe_write, pipe_destroy inlined"},
]


HARNESSES += [
    {"name": "fd_in_set", "props": ["C11"], "src": "h_process_static.c", "contracts": ["public.h"],
     "includes": ["process.posix.c"], "enforce": "fd_in_set", "defs": {"PS_fd_in_set": None}, "unwind": 8,
     "what": "fd_in_set over a 6-entry set (the size process_start passes), loop fully unrolled"},
    {"name": "get_max_fd", "props": ["C11", "C04"], "src": "h_process_static.c", "contracts": ["public.h"],
     "includes": ["process.posix.c"], "enforce": "get_max_fd", "defs": {"PS_get_max_fd": None},
     "what": "get_max_fd for every soft limit value"},
    {"name": "process_fork_parent", "props": ["C12", "C05", "C04", "C06"], "src": "h_process_fork.c",
     "contracts": ["public.h"], "includes": ["process.posix.c"], "enforce": "process_fork",
     "defs": {"SIDE_PARENT": None}, "unwind": 34,
     "what": "process_fork, parent side of fork, every OS call fallible: mask and descriptors restored on every return, "
             "success is a live child, failure leaves no child"},
    {"name": "process_fork_child", "props": ["C11", "C12", "C04", "C10"], "src": "h_process_fork.c",
     "contracts": ["public.h"], "includes": ["process.posix.c"], "enforce": "process_fork",
     "replace": ["fd_in_set"], "loop_contracts": True,
     "defs": {"SIDE_CHILD": None, "VERIF_LOOP_CONTRACTS": None}, "unwind": 34, "must_fail": ["reach/_exit"],
     "pre_unwind": [{"file": "process.posix.c", "text": "signal < 32; signal++", "bound": 34}],
     "what": "process_fork, child side: signal reset loop (32, fully unrolled), close-all loop closed by a loop contract "
             "(unbounded up to the 1 Mi cap), failures reported through the error pipe (_exit contract)"},
]


HARNESSES += [
    {"name": "process_start_parent", "props": ["C04", "C05", "C06", "C12", "C03"], "src": "h_process_start.c",
     "contracts": ["public.h"], "includes": ["process.posix.c", "strv.c"], "enforce": "process_start",
     "replace": ["process_fork", "path_prepend_cwd"],
     "defs": {"SIDE_PARENT": None}, "unwind": 10,
     "what": "process_start, parent side, every OS call fallible, process_fork/path_prepend_cwd "
             "replaced by their contracts, strv_concat/strv_free by executable contracts (stubs in the harness): success is a live child that executed the program, failure leaves nothing"},
    {"name": "process_start_child", "props": ["C10", "C11", "C12", "C03", "C04"], "src": "h_process_start.c",
     "contracts": ["public.h"], "includes": ["process.posix.c", "strv.c"], "enforce": "process_start",
     "replace": ["process_fork", "path_prepend_cwd"],
     "defs": {"SIDE_CHILD": None}, "unwind": 10, "no_leak_check": True, "must_fail": ["reach/exec", "reach/_exit"],
     "what": "process_start, child side: symbolic, possibly aliasing child handles; the execvp contract of the OS layer "
             "asserts stream identity and direction, close-on-exec of everything else, the exit handle, signal state, "
             "program, argv, environment and working directory; failures go through the error pipe"},
]


START_REPLACED = ["parse_options", "redirect_init", "redirect_destroy", "setup_input", "process_start", "now"]
HARNESSES += [
    {"name": "reproc_start_parent", "props": ["C04", "C05", "C06", "C10", "C12", "C13", "C14", "C02", "C17", "C15", "C08"],
     "src": "h_reproc_start.c", "contracts": ["public.h"], "includes": ["reproc.c"], "enforce": "reproc_start",
     "replace": START_REPLACED, "defs": {"SIDE_PARENT": None}, "unwind": 24,
     "what": "reproc_start, parent side: every option field symbolic, any handle state; parse_options, redirect_init (x3), "
             "redirect_destroy (x3), setup_input, process_start, now replaced by their contracts; pipe_init and "
             "pipe_destroy inlined with every OS call fallible"},
    {"name": "reproc_start_child", "props": ["C14", "C04"],
     "src": "h_reproc_start.c", "contracts": ["public.h"], "includes": ["reproc.c"], "enforce": "reproc_start",
     "replace": START_REPLACED, "defs": {"SIDE_CHILD": None}, "unwind": 24, "no_leak_check": True,
     "what": "reproc_start as seen by the fork-mode child (process_start returns 0 there)"},
]


def api(name, props, what, **kw):
    d = {"name": "reproc_" + name, "props": props, "src": "h_api.c", "contracts": ["public.h"],
         "includes": ["reproc.c"], "enforce": "reproc_" + name, "defs": {"API_" + name: None, "VERIF_MAX_BUF": "(1ul<<40)"},
         "what": what, "unwind": 4, "replace": ["now"]}
    d.update(kw)
    return d


HARNESSES += [
    api("wait", ["C01", "C08", "C14", "C06", "C07", "C05", "C04"],
        "reproc_wait on a handle in any state satisfying the invariant, any timeout; pipe_poll, expiry, now, "
        "process_wait, pipe_destroy inlined down to the OS layer"),
    api("terminate", ["C07", "C06", "C14"], "reproc_terminate on any handle state"),
    api("kill", ["C07", "C06", "C14"], "reproc_kill on any handle state"),
    api("pid", ["C14"], "reproc_pid on any handle state"),
    api("close", ["C02", "C14", "C05", "C06"], "reproc_close, any stream value, any handle state"),
    api("read", ["C02", "C17", "C14", "C05", "C06"], "reproc_read, any stream value, any size with a matching buffer or NULL"),
    api("write", ["C02", "C17", "C14", "C05", "C06"], "reproc_write, any size with a matching buffer or NULL"),
    api("stop", ["C07", "C01", "C14", "C05", "C08", "C15", "C06"],
        "reproc_stop with reproc_wait/terminate/kill inlined down to the OS layer; the three-iteration loop is "
        "fully unrolled (unwinding assertion on); every OS-level step is checked by the stop-sequence monitor "
        "against the plan computed by an independent specification", unwind=5),
    api("destroy", ["C15", "C05", "C14", "C07", "C06"],
        "reproc_destroy on a handle in any state, any stored stop policy, any deadline; reproc_stop and everything "
        "below inlined; the monitor checks the stop steps and that nothing is released before the sequence is over; "
        "the handle is freed (leak check)", unwind=5),
]

ALL_FUNCTIONS = set()
for _h in HARNESSES:
    if _h.get("enforce"):
        ALL_FUNCTIONS.add(_h["enforce"])
    ALL_FUNCTIONS.update(_h.get("replace", []))

NOT_YET = "no check built for it yet in this round (see DESIGN.md §0 for the planned contract route)"

PROPERTY_META = {
    "C13": {
        "claimed": True, "level": "proof",
        "text": "parse_options is enforced against an independent transcription of the documented option rules "
                "(contracts/spec_options.h) with every field of reproc_options symbolic; the function is loop-free, "
                "so the discharged obligations cover all inputs. reproc_start's 'nothing happens before validation' "
                "is a postcondition over the OS-call counter and the descriptor ledger.",
        "note": "Trusted: CBMC/DFCC, the transcription of reproc.h into spec_options.h, NDEBUG configuration. "
                "Out-of-range redirect types are outside the documented domain: only 'returns 0 or EINVAL' is claimed for them.",
        "technique": "CBMC code contracts (DFCC), SAT back end, full symbolic domain, loop-free",
        "design_ref": "§3 C13",
        "not_decided": ["Windows front end (same options.c, but redirect.windows.c differs)"],
    },
    "C19": {"claimed": False, "reason": "reproc++ is C++11 over libstdc++; cbmc 6.11.0's C++ front end cannot parse it and rejects contract syntax; a hand translation would be a model (DESIGN §8)"},
    "C20": {"claimed": False, "reason": "the claim ranges over thread interleavings; CBMC code contracts are sequential and cannot state read frames (DESIGN §8)"},
}
for _i in range(1, 21):
    PROPERTY_META.setdefault("C%02d" % _i, {"claimed": False, "reason": NOT_YET})
