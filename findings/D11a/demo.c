/* D11a (C10): a child handle that already has the number of a standard stream
 * keeps FD_CLOEXEC. Redirecting stdout to the parent's stderr by handle
 * (redirect.out.handle = 2) set FD_CLOEXEC on descriptor 2 in the child; stderr
 * (REPROC_REDIRECT_PARENT, dup2(2, 2) is a no-op) was then closed by exec. */
#include <reproc/reproc.h>
#include <reproc/run.h>
#include <stdio.h>
int main(void)
{
  const char *argv[] = { "sh", "-c", "echo to-stderr >&2 || exit 42", NULL };
  reproc_options o = { 0 };
  o.redirect.in.type = REPROC_REDIRECT_DISCARD;
  o.redirect.out.handle = 2;                    /* child's stdout -> our stderr */
  o.redirect.err.type = REPROC_REDIRECT_PARENT; /* child's stderr -> our stderr */
  int r = reproc_run(argv, o);
  printf("child exit status %d (0 expected: its stderr must be usable)\n", r);
  return r == 0 ? 0 : 1;
}
