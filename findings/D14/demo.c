/* D14 (C07, C01): a stop sequence whose waits all expire must return
 * REPROC_ETIMEDOUT; a trailing REPROC_STOP_NOOP made reproc_stop return 0,
 * i.e. "the child exited with status 0", while the child is still running. */
#include <reproc/reproc.h>
#include <stdio.h>
int main(void)
{
  const char *argv[] = { "sleep", "2", NULL };
  reproc_t *p = reproc_new();
  reproc_options o = { 0 };
  o.redirect.parent = true;
  int r = reproc_start(p, argv, o);
  if (r < 0) { printf("start failed %d\n", r); return 2; }
  reproc_stop_actions stop = { .first = { REPROC_STOP_WAIT, 50 } }; /* second, third: noop */
  r = reproc_stop(p, stop);
  printf("reproc_stop({WAIT 50ms, NOOP, NOOP}) on a running child -> %d (REPROC_ETIMEDOUT = %d)\n", r, REPROC_ETIMEDOUT);
  int ok = r == REPROC_ETIMEDOUT;
  reproc_kill(p);
  reproc_wait(p, REPROC_INFINITE);
  reproc_destroy(p);
  return ok ? 0 : 1;
}
