/* D4 (C08): reproc_poll must not block past the earliest deadline among its
 * sources, whatever their order. A source WITHOUT a deadline listed after one
 * WITH a deadline displaced it in find_earliest_deadline (-1 < remaining), so the
 * poll ignored the deadline and waited for the full timeout. */
#include <reproc/reproc.h>
#include <stdio.h>
#include <time.h>
static long ms(void) { struct timespec t; clock_gettime(CLOCK_MONOTONIC, &t); return t.tv_sec * 1000 + t.tv_nsec / 1000000; }
int main(void)
{
  const char *argv[] = { "sleep", "3", NULL };
  reproc_t *a = reproc_new(), *b = reproc_new();
  reproc_options oa = { 0 }, ob = { 0 };
  oa.deadline = 200;               /* a: deadline in 200 ms */
  if (reproc_start(a, argv, oa) < 0 || reproc_start(b, argv, ob) < 0) return 2; /* b: none */
  reproc_event_source s[2] = { { a, REPROC_EVENT_OUT, 0 }, { b, REPROC_EVENT_OUT, 0 } };
  long t0 = ms();
  int r = reproc_poll(s, 2, 1500);
  long dt = ms() - t0;
  printf("reproc_poll -> %d after %ld ms; events a=%d b=%d (expected: 1 after ~200 ms, deadline event %d on a)\n",
         r, dt, s[0].events, s[1].events, REPROC_EVENT_DEADLINE);
  int ok = r == 1 && s[0].events == REPROC_EVENT_DEADLINE && s[1].events == 0 && dt < 1000;
  reproc_kill(a); reproc_kill(b); reproc_wait(a, REPROC_INFINITE); reproc_wait(b, REPROC_INFINITE);
  reproc_destroy(a); reproc_destroy(b);
  return ok ? 0 : 1;
}
