/* D6 (C11): the child must not inherit any descriptor besides 0,1,2 and the exit
 * handle, "including the highest permitted descriptor number". With a soft
 * RLIMIT_NOFILE of N, descriptor N-1 (without FD_CLOEXEC) survived the close-all
 * loop of process_fork (`i < max_fd` with max_fd = N-1). */
#include <reproc/reproc.h>
#include <reproc/run.h>
#include <fcntl.h>
#include <stdio.h>
#include <sys/resource.h>
#include <unistd.h>
int main(void)
{
  struct rlimit rl = { 64, 64 };
  if (setrlimit(RLIMIT_NOFILE, &rl) != 0) { perror("setrlimit"); return 2; }
  int fd = open("/dev/null", O_RDONLY);
  if (fd < 0 || dup2(fd, 63) != 63) { perror("dup2"); return 2; } /* no FD_CLOEXEC */
  const char *argv[] = { "sh", "-c", "test -e /proc/self/fd/63", NULL };
  reproc_options o = { 0 };
  int r = reproc_run(argv, o);
  printf("child sees descriptor 63 (highest permitted, soft limit 64): %s (exit %d)\n", r == 0 ? "YES" : "no", r);
  return r == 0 ? 1 : 0;
}
