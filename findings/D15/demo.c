/* D15 (C05): REPROC_REDIRECT_PARENT for a stream the parent has closed falls back
 * to the null device; that descriptor was never closed again (redirect_destroy
 * was called with the unchanged type PARENT): one leaked descriptor per start. */
#include <reproc/reproc.h>
#include <reproc/run.h>
#include <dirent.h>
#include <stdio.h>
static int count_fds(void)
{
  int n = 0; DIR *d = opendir("/proc/self/fd"); struct dirent *e;
  while ((e = readdir(d)) != NULL) if (e->d_name[0] != '.') n++;
  closedir(d); return n;
}
int main(void)
{
  fclose(stdin); /* the parent has no stdin any more: fileno(stdin) reports EBADF */
  const char *argv[] = { "true", NULL };
  int before = count_fds();
  for (int i = 0; i < 5; i++) {
    reproc_options o = { 0 };
    o.redirect.in.type = REPROC_REDIRECT_PARENT;
    o.redirect.out.type = REPROC_REDIRECT_DISCARD;
    o.redirect.err.type = REPROC_REDIRECT_DISCARD;
    int r = reproc_run(argv, o);
    if (r != 0) { printf("run failed %d\n", r); return 2; }
  }
  int after = count_fds();
  printf("open descriptors before %d, after 5 start/destroy cycles %d\n", before, after);
  return after == before ? 0 : 1;
}
