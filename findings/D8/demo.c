/* D8 (C18): an empty argument must survive the command line. argument_should_escape
 * did not quote the empty string, so argv_join({"a", "", "b"}) produced `a  b`,
 * which Windows splits into two arguments. The real process.windows.c is compiled
 * against /verif/stubs/win/windows.h (types and prototypes only). */
#include <stdio.h>
#include <stdlib.h>
void *const HANDLE_INVALID = (void *) (long) -1;
void *handle_destroy(void *h) { (void) h; return (void *) (long) -1; }
const int REPROC_SIGTERM = 143, REPROC_SIGKILL = 137;
#include "process.windows.c"
/* the Win32 functions are never reached from argv_join: dummies for the linker */
void SetLastError(DWORD e) { (void) e; }
DWORD GetLastError(void) { return 0; }
BOOL SetHandleInformation(HANDLE h, DWORD m, DWORD f) { abort(); }
BOOL InitializeProcThreadAttributeList(LPPROC_THREAD_ATTRIBUTE_LIST l, DWORD n, DWORD f, SIZE_T *s) { abort(); }
BOOL UpdateProcThreadAttribute(LPPROC_THREAD_ATTRIBUTE_LIST l, DWORD f, DWORD_PTR a, LPVOID v, SIZE_T s, LPVOID p, SIZE_T *r) { abort(); }
void DeleteProcThreadAttributeList(LPPROC_THREAD_ATTRIBUTE_LIST l) { abort(); }
wchar_t *GetEnvironmentStringsW(void) { abort(); }
BOOL FreeEnvironmentStringsW(wchar_t *e) { abort(); }
DWORD SetErrorMode(DWORD m) { abort(); }
BOOL CreateProcessW(LPCWSTR a, LPWSTR c, SECURITY_ATTRIBUTES *pa, SECURITY_ATTRIBUTES *ta, BOOL i, DWORD f, LPVOID e, LPCWSTR w, LPSTARTUPINFOW si, PROCESS_INFORMATION *pi) { abort(); }
DWORD GetProcessId(HANDLE h) { abort(); }
DWORD WaitForSingleObject(HANDLE h, DWORD ms) { abort(); }
BOOL GetExitCodeProcess(HANDLE h, DWORD *c) { abort(); }
BOOL GenerateConsoleCtrlEvent(DWORD e, DWORD g) { abort(); }
BOOL TerminateProcess(HANDLE h, DWORD c) { abort(); }
wchar_t *utf16_from_utf8(const char *s, int n) { abort(); }
int main(void)
{
  const char *argv[] = { "a", "", "b", NULL };
  char *cl = argv_join(argv);
  printf("argv_join({\"a\", \"\", \"b\"}) = [%s]\n", cl);
  int ok = cl != NULL && strcmp(cl, "a \"\" b") == 0;
  free(cl);
  return ok ? 0 : 1;
}
