#!/bin/sh
R=${1:-/repo}; T=$(mktemp -d)
gcc -w -DNDEBUG -D_WIN32 -D_WIN64 -I/verif/stubs/win -I$R/reproc/include -I$R/reproc/src -c $(dirname $0)/demo.c -o $T/demo.o && \
gcc $T/demo.o -o $T/demo && $T/demo; rc=$?
rm -rf $T; exit $rc
