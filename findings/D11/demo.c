/* D11 (C10): the three dup2 calls of process_start ran in stream order without
 * saving their sources. With stdout discarded and stderr redirected to the
 * parent's stdout (redirect.err.file = stdout, descriptor 1), dup2(/dev/null, 1)
 * overwrote descriptor 1 before dup2(1, 2) used it: the child's stderr ended up
 * on the null device instead of the parent's stdout. */
#include <reproc/reproc.h>
#include <reproc/run.h>
#include <fcntl.h>
#include <stdio.h>
#include <stdlib.h>
#include <string.h>
#include <unistd.h>
int main(void)
{
  char path[] = "/tmp/verif-d11-XXXXXX";
  int fd = mkstemp(path);
  int saved = dup(1);
  fflush(stdout);
  dup2(fd, 1); /* our stdout is now the temporary file */
  const char *argv[] = { "sh", "-c", "echo to-stderr >&2", NULL };
  reproc_options o = { 0 };
  o.redirect.in.type = REPROC_REDIRECT_DISCARD;
  o.redirect.out.type = REPROC_REDIRECT_DISCARD;
  o.redirect.err.file = stdout; /* child's stderr -> our stdout */
  int r = reproc_run(argv, o);
  fflush(stdout);
  dup2(saved, 1);
  char buf[64] = { 0 };
  lseek(fd, 0, SEEK_SET);
  ssize_t n = read(fd, buf, sizeof(buf) - 1);
  unlink(path);
  printf("run -> %d; our stdout received %zd bytes: \"%s\" (expected \"to-stderr\\n\")\n", r, n, buf);
  return (r == 0 && strcmp(buf, "to-stderr\n") == 0) ? 0 : 1;
}
