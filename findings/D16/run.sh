#!/bin/sh
# usage: run.sh <repo dir>; exit 0 iff the behaviour is correct
R=${1:-/repo}; T=$(mktemp -d)
gcc -DNDEBUG -DREPROC_MULTITHREADED -I$R/reproc/include -I$R/reproc/src $(dirname $0)/demo.c \
  $R/reproc/src/reproc.c $R/reproc/src/options.c $R/reproc/src/redirect.c $R/reproc/src/redirect.posix.c \
  $R/reproc/src/pipe.posix.c $R/reproc/src/handle.posix.c $R/reproc/src/process.posix.c $R/reproc/src/strv.c \
  $R/reproc/src/drain.c $R/reproc/src/run.c $R/reproc/src/clock.posix.c $R/reproc/src/init.posix.c \
  $R/reproc/src/error.posix.c $R/reproc/src/utf.posix.c -lpthread -o $T/demo && $T/demo; rc=$?
rm -rf $T; exit $rc
