/* D16 (C02): a read with a buffer size of 0 is not the end of the stream.
 * read(fd, buf, 0) returns 0; pipe_read took every 0 for end-of-file, so
 * reproc_read(process, stream, buffer, 0) returned REPROC_EPIPE and closed the
 * stream: everything the child wrote afterwards (here: "hello") was lost. */
#include <reproc/reproc.h>
#include <stdio.h>
#include <string.h>
int main(void)
{
  const char *argv[] = { "sh", "-c", "sleep 0.2; echo hello", NULL };
  reproc_t *p = reproc_new();
  reproc_options o = { 0 };
  int r = reproc_start(p, argv, o);
  if (r < 0) { printf("start failed %d\n", r); return 2; }
  uint8_t buf[16];
  int r0 = reproc_read(p, REPROC_STREAM_OUT, buf, 0);
  printf("reproc_read(size 0) on a live stream -> %d (REPROC_EPIPE = %d)\n", r0, REPROC_EPIPE);
  char got[32] = { 0 };
  size_t n = 0;
  for (;;) {
    r = reproc_read(p, REPROC_STREAM_OUT, buf, sizeof(buf));
    if (r < 0) break;
    memcpy(got + n, buf, (size_t) r);
    n += (size_t) r;
    if (n >= 6) break;
  }
  printf("then read: \"%.*s\" (last result %d)\n", (int) (n ? n - 1 : 0), got, r);
  int ok = r0 != REPROC_EPIPE && n == 6 && memcmp(got, "hello\n", 6) == 0;
  reproc_wait(p, REPROC_INFINITE);
  reproc_destroy(p);
  return ok ? 0 : 1;
}
