/* D10 (C04): a signal handler interrupting the read of the error pipe made start
 * report success for a program that could not be executed. The interruption is
 * injected with -Wl,--wrap=read: the first 4-byte read (the error pipe) fails once
 * with EINTR, as a handler without SA_RESTART would make it. */
#include <reproc/reproc.h>
#include <errno.h>
#include <stdio.h>
#include <unistd.h>
ssize_t __real_read(int fd, void *buf, size_t n);
static int injected;
ssize_t __wrap_read(int fd, void *buf, size_t n)
{
  if (n == sizeof(int) && injected < 2) { injected++; errno = EINTR; return -1; }
  return __real_read(fd, buf, n);
}
int main(void)
{
  const char *argv[] = { "/nonexistent/program", NULL };
  reproc_t *p = reproc_new();
  reproc_options o = { 0 };
  int r = reproc_start(p, argv, o);
  printf("reproc_start(/nonexistent/program) with the error-pipe read interrupted -> %d (expected -%d ENOENT)\n", r, ENOENT);
  reproc_destroy(p);
  return r == -ENOENT ? 0 : 1;
}
