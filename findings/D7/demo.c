/* D7 (C13): REPROC_REDIRECT_STDOUT on stdin/stdout must be rejected up front with
 * REPROC_EINVAL, before any pipe or process is created. Before the fix reproc_start
 * created pipes, forked, and failed in the child (dup2(-1, 0)) with EBADF. */
#include <reproc/reproc.h>
#include <stdio.h>
int main(void)
{
  const char *argv[] = { "true", NULL };
  reproc_t *p = reproc_new();
  reproc_options o = { 0 };
  o.redirect.in.type = REPROC_REDIRECT_STDOUT;
  int r = reproc_start(p, argv, o);
  printf("reproc_start -> %d (%s); REPROC_EINVAL = %d\n", r, reproc_strerror(r), REPROC_EINVAL);
  reproc_destroy(p);
  return r == REPROC_EINVAL ? 0 : 1;
}
