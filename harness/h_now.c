/* C08: now() is the OS clock in milliseconds. */
#include "common.h"

void harness(void)
{
  ghost_init();
#include "gen/pre_now.inc"
  int64_t verif_rv = now();
#include "gen/post_now.inc"
  V_CANARY("now.returns");
}
