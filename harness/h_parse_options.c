/* C13: parse_options against the documentation, every field symbolic. */
#include "options.c"

void harness(void)
{
  reproc_options o;
  /* every field an arbitrary bit pattern; pointers NULL or not */
  o.working_directory = nondet_bool() ? "wd" : NULL;
  o.env.behavior = (REPROC_ENV) nondet_int();
  o.env.extra = NULL;
  o.redirect.in.type = (REPROC_REDIRECT) nondet_int();
  o.redirect.in.handle = nondet_int();
  o.redirect.in.file = nondet_bool() ? VERIF_USER_FILE : NULL;
  o.redirect.in.path = nondet_bool() ? "pi" : NULL;
  o.redirect.out.type = (REPROC_REDIRECT) nondet_int();
  o.redirect.out.handle = nondet_int();
  o.redirect.out.file = nondet_bool() ? VERIF_USER_FILE : NULL;
  o.redirect.out.path = nondet_bool() ? "po" : NULL;
  o.redirect.err.type = (REPROC_REDIRECT) nondet_int();
  o.redirect.err.handle = nondet_int();
  o.redirect.err.file = nondet_bool() ? VERIF_USER_FILE : NULL;
  o.redirect.err.path = nondet_bool() ? "pe" : NULL;
  o.redirect.parent = nondet_bool();
  o.redirect.discard = nondet_bool();
  o.redirect.file = nondet_bool() ? VERIF_USER_FILE : NULL;
  o.redirect.path = nondet_bool() ? "pp" : NULL;
  o.stop.first.action = (REPROC_STOP) nondet_int();
  o.stop.first.timeout = nondet_int();
  o.stop.second.action = (REPROC_STOP) nondet_int();
  o.stop.second.timeout = nondet_int();
  o.stop.third.action = (REPROC_STOP) nondet_int();
  o.stop.third.timeout = nondet_int();
  o.deadline = nondet_int();
  static const uint8_t data[1];
  o.input.data = nondet_bool() ? data : NULL;
  o.input.size = nondet_ulong();
  o.fork = nondet_bool();
  o.nonblocking = nondet_bool();

  const char *arr[1];
  arr[0] = nondet_bool() ? "prog" : NULL;
  const char *const *argv = nondet_bool() ? arr : NULL;

  /* the specification is consistent: nothing is both allowed and to be rejected */
  V_ASSERT("C13/spec.allowed_and_rejected_disjoint",
           !(OPT_ALLOWED(o, argv == NULL, argv != NULL && argv[0] != NULL) &&
             OPT_REJECT(o, argv == NULL, argv != NULL && argv[0] != NULL)));

  reproc_options *options = &o;
#include "gen/pre_parse_options.inc"
  int verif_rv = parse_options(options, argv);
#include "gen/post_parse_options.inc"

  if (verif_rv == 0) {
    V_CANARY("parse_options.accept_reachable");
  } else {
    V_CANARY("parse_options.reject_reachable");
  }
}
