/* Windows halves of C01/C07: the real process_wait / process_terminate /
 * process_kill of process.windows.c against executable contracts of the Win32
 * functions they call (assumed): the exit code is reported exactly, the
 * CTRL-BREAK exit code 0xC000013A is mapped to REPROC_SIGTERM, failures are
 * -GetLastError(), terminate sends CTRL_BREAK to the child's process group,
 * kill terminates with exit code REPROC_SIGKILL. */
#include <stdbool.h>
#include <stdlib.h>
bool nondet_bool(void);
unsigned nondet_uint(void);
int nondet_int(void);
#define V_ASSERT(label, c) __CPROVER_assert((c), label)
#define V_CANARY(label) __CPROVER_assert(0, "canary/" label)

void *const HANDLE_INVALID = (void *) (long) -1;
void *handle_destroy(void *h) { (void) h; return (void *) (long) -1; }
const int REPROC_SIGTERM = 143, REPROC_SIGKILL = 137;

#include "process.windows.c"

static HANDLE the_child = (HANDLE) (long) 0x1234;
static DWORD the_pid, last_error, child_exit_code;
static int waits, ctrl_events, terminates;
static DWORD terminate_code, ctrl_group, ctrl_kind;
static bool wait_fails, code_fails, ctrl_fails, term_fails;

DWORD GetLastError(void) { return last_error; }
void SetLastError(DWORD e) { last_error = e; }
DWORD GetProcessId(HANDLE h) { V_ASSERT("C06/win.pid_of_own_child", h == the_child); return the_pid; }
DWORD WaitForSingleObject(HANDLE h, DWORD ms)
{
  V_ASSERT("C01+C06/win.waits_for_own_child_without_timeout", h == the_child && ms == INFINITE);
  waits++;
  if (wait_fails) { last_error = 6; return WAIT_FAILED; }
  return 0;
}
BOOL GetExitCodeProcess(HANDLE h, DWORD *code)
{
  V_ASSERT("C01/win.exit_code_of_own_child_after_wait", h == the_child && waits == 1);
  if (code_fails) { last_error = 5; return 0; }
  *code = child_exit_code;
  return 1;
}
BOOL GenerateConsoleCtrlEvent(DWORD ev, DWORD group)
{
  ctrl_events++; ctrl_kind = ev; ctrl_group = group;
  if (ctrl_fails) { last_error = 87; return 0; }
  return 1;
}
BOOL TerminateProcess(HANDLE h, DWORD code)
{
  V_ASSERT("C06/win.terminates_own_child", h == the_child);
  terminates++; terminate_code = code;
  if (term_fails) { last_error = 5; return 0; }
  return 1;
}

void harness(void)
{
  the_pid = nondet_uint();
  child_exit_code = nondet_uint();
  wait_fails = nondet_bool(); code_fails = nondet_bool(); ctrl_fails = nondet_bool(); term_fails = nondet_bool();
  waits = ctrl_events = terminates = 0;
#if defined(WINP_wait)
  int r = process_wait(the_child);
  if (wait_fails) {
    V_ASSERT("C01/win.process_wait.wait_failure_is_reported", r == -6);
  } else if (code_fails) {
    V_ASSERT("C01/win.process_wait.exit_code_failure_is_reported", r == -5);
  } else if (child_exit_code == 0xC000013Au) {
    V_ASSERT("C01/win.process_wait.ctrl_break_exit_is_sigterm", r == 143);
    V_CANARY("win.ctrl_break_reachable");
  } else {
    V_ASSERT("C01/win.process_wait.exit_code_exact", (DWORD) r == child_exit_code);
    V_CANARY("win.plain_exit_reachable");
  }
  V_ASSERT("C01/win.process_wait.waits_once_sends_nothing", waits == 1 && ctrl_events == 0 && terminates == 0);
#elif defined(WINP_terminate)
  int r = process_terminate(the_child);
  V_ASSERT("C07/win.process_terminate.one_ctrl_break_to_the_childs_group", ctrl_events == 1 && ctrl_kind == CTRL_BREAK_EVENT && ctrl_group == the_pid && terminates == 0 && waits == 0);
  V_ASSERT("C07/win.process_terminate.result", r == (ctrl_fails ? -87 : 0));
  V_CANARY("win.terminate_reachable");
#elif defined(WINP_kill)
  int r = process_kill(the_child);
  V_ASSERT("C07/win.process_kill.terminates_once_with_sigkill_status", terminates == 1 && terminate_code == 137 && ctrl_events == 0 && waits == 0);
  V_ASSERT("C07/win.process_kill.result", r == (term_fails ? -5 : 0));
  V_CANARY("win.kill_reachable");
#endif
}
