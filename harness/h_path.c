/* C03: path_is_relative against the documented meaning (reproc.h :343-345,
 * process.posix.c :39-41), bounded string length. */
#include "process.posix.c"
#include "static_process.h"
#include "common.h"

#ifndef VERIF_PATHLEN
#define VERIF_PATHLEN 4
#endif

void harness(void)
{
  ghost_init();
  static char s[VERIF_PATHLEN + 1];
  for (int i = 0; i < VERIF_PATHLEN; i++) s[i] = (char) nondet_uchar();
  s[VERIF_PATHLEN] = '\0';
  const char *path = s;

  bool spec = false; /* not empty, not absolute, and names a directory component */
  if (s[0] != '\0' && s[0] != '/') {
    for (int i = 1; i < VERIF_PATHLEN && s[i] != '\0'; i++) {
      if (s[i] == '/') spec = true;
    }
  }
  bool verif_rv = path_is_relative(path);
  V_ASSERT("C03/path_is_relative.non_empty_not_absolute_with_directory_component", verif_rv == spec);
  if (verif_rv) V_CANARY("path.relative_reachable"); else V_CANARY("path.not_relative_reachable");
}
