/* C03/C14: path_is_relative against the documented meaning (reproc.h :343-345,
 * process.posix.c :39-41), bounded string length. The string lives in a heap
 * object of exactly strlen + 1 bytes, so that a read past the terminating NUL
 * is out of bounds. */
#include "process.posix.c"
#include "static_process.h"
#include "common.h"

#ifndef VERIF_PATHLEN
#define VERIF_PATHLEN 4
#endif

void harness(void)
{
  ghost_init();
  size_t len = nondet_ulong();
  __CPROVER_assume(len <= VERIF_PATHLEN);
  char *s = (malloc)(len + 1);
  __CPROVER_assume(s != NULL);
  for (size_t i = 0; i < VERIF_PATHLEN; i++) {
    if (i < len) {
      s[i] = (char) nondet_uchar();
      __CPROVER_assume(s[i] != '\0');
    }
  }
  s[len] = '\0';
  const char *path = s;

  bool spec = false; /* not empty, not absolute, and names a directory component */
  if (len > 0 && s[0] != '/') {
    for (size_t i = 1; i < VERIF_PATHLEN; i++) {
      if (i < len && s[i] == '/') spec = true;
    }
  }
  bool verif_rv = path_is_relative(path);
  V_ASSERT("C03/path_is_relative.non_empty_not_absolute_with_directory_component", verif_rv == spec);
  if (verif_rv) V_CANARY("path.relative_reachable"); else V_CANARY("path.not_relative_reachable");
  if (len == 0) V_CANARY("path.empty_string_reachable");
  (free)(s);
}
