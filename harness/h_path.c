/* C03/C14: path_is_relative against the documented meaning (reproc.h :343-345,
 * process.posix.c :39-41).
 *
 * Two harnesses over the same real function:
 *  - default: bounded string length, byte level, CBMC's own strlen/strchr. The
 *    string lives in a heap object of exactly strlen + 1 bytes, so that a read
 *    past the terminating NUL is out of bounds.
 *  - VERIF_PATH_ANY: ANY string length up to 2^30, loop-free and therefore a
 *    complete proof relative to the two libc contracts below. The string is
 *    described by ghost values (its length, its first byte, the index of the
 *    first '/' at or after index 1, if any); strlen and strchr are executable
 *    contracts over that description that also assert that the pointer they are
 *    handed lies inside the string (so `path + 1` on an empty string, or a scan
 *    started past the NUL, is refuted for every length). */
#ifdef VERIF_PATH_ANY
#include "rename.h"

static const char *gp_path;
static size_t gp_len;      /* strlen(path) */
static bool gp_has_slash;  /* some path[i] == '/' with 1 <= i < gp_len */
static size_t gp_slash;    /* the first such i */
static int gp_strchr_calls;

static size_t verif_path_strlen(const char *s)
{
  V_ASSERT("C14/path_is_relative.strlen_of_the_path_itself", s == gp_path);
  return gp_len;
}

/* ISO C 7.24.5.2 for c = '/', on the abstract string. */
static char *verif_path_strchr(const char *s, int c)
{
  V_ASSERT("C14/path_is_relative.scan_starts_inside_the_string",
           __CPROVER_same_object(s, gp_path) && (size_t) (s - gp_path) <= gp_len);
  V_ASSERT("C03/path_is_relative.looks_for_a_directory_separator", c == '/');
  if (gp_strchr_calls < 100) gp_strchr_calls++;
  size_t from = (size_t) (s - gp_path);
  if (from == 0 && gp_len > 0 && gp_path[0] == '/') return (char *) gp_path;
  if (gp_has_slash && from <= gp_slash) return (char *) gp_path + gp_slash;
  if (from <= 1) return NULL; /* no separator at or after index 1, and none at index 0 */
  /* a scan started further in: the description does not say what lies there */
  size_t at = nondet_ulong();
  __CPROVER_assume(at >= from && at < gp_len);
  return nondet_bool() ? (char *) gp_path + at : NULL;
}

/* ISO C 7.24.5.5 for c = '/': the LAST occurrence; the description fixes only
   whether there is one at or after index 1 and where the first one is. */
static char *verif_path_strrchr(const char *s, int c)
{
  V_ASSERT("C14/path_is_relative.scan_starts_inside_the_string",
           __CPROVER_same_object(s, gp_path) && (size_t) (s - gp_path) <= gp_len);
  V_ASSERT("C03/path_is_relative.looks_for_a_directory_separator", c == '/');
  size_t from = (size_t) (s - gp_path);
  if (gp_has_slash && from <= gp_slash) {
    size_t at = nondet_ulong();
    __CPROVER_assume(at >= gp_slash && at < gp_len);
    return (char *) gp_path + at;
  }
  if (from == 0 && gp_len > 0 && gp_path[0] == '/') return (char *) gp_path;
  if (from <= 1) return NULL;
  size_t at = nondet_ulong();
  __CPROVER_assume(at >= from && at < gp_len);
  return nondet_bool() ? (char *) gp_path + at : NULL;
}

#define strlen(s) verif_path_strlen(s)
#define strchr(s, c) verif_path_strchr(s, c)
#define strrchr(s, c) verif_path_strrchr(s, c)
#include "process.posix.c"
#undef strlen
#undef strchr
#undef strrchr
#include "static_process.h"
#include "common.h"

void harness(void)
{
  ghost_init();
  gp_strchr_calls = 0;
  gp_len = nondet_ulong();
  __CPROVER_assume(gp_len <= ((size_t) 1 << 30));
  char *s = (malloc)(gp_len + 1);
  __CPROVER_assume(s != NULL);
  gp_path = s;
  gp_has_slash = nondet_bool();
  gp_slash = nondet_ulong();
  __CPROVER_assume(!gp_has_slash || (gp_slash >= 1 && gp_slash < gp_len));
  if (gp_len > 0) {
    s[0] = (char) nondet_uchar();
    __CPROVER_assume(s[0] != '\0');
  }
  if (gp_has_slash) s[gp_slash] = '/';
  s[gp_len] = '\0';

  /* not empty, not absolute, and names a directory component */
  bool spec = gp_len > 0 && s[0] != '/' && gp_has_slash;
  bool verif_rv = path_is_relative(s);
  V_ASSERT("C03/path_is_relative.non_empty_not_absolute_with_directory_component", verif_rv == spec);
  if (verif_rv) V_CANARY("path_any.relative_reachable"); else V_CANARY("path_any.not_relative_reachable");
  if (gp_len == 0) V_CANARY("path_any.empty_string_reachable");
  if (gp_len > 100000 && gp_has_slash && gp_slash > 50000) V_CANARY("path_any.long_path_reachable");
  if (gp_len > 0 && s[0] == '/') V_CANARY("path_any.absolute_reachable");
  (free)(s);
}
#else
#include "process.posix.c"
#include "static_process.h"
#include "common.h"

#ifndef VERIF_PATHLEN
#define VERIF_PATHLEN 4
#endif

void harness(void)
{
  ghost_init();
  size_t len = nondet_ulong();
  __CPROVER_assume(len <= VERIF_PATHLEN);
  char *s = (malloc)(len + 1);
  __CPROVER_assume(s != NULL);
  for (size_t i = 0; i < VERIF_PATHLEN; i++) {
    if (i < len) {
      s[i] = (char) nondet_uchar();
      __CPROVER_assume(s[i] != '\0');
    }
  }
  s[len] = '\0';
  const char *path = s;

  bool spec = false; /* not empty, not absolute, and names a directory component */
  if (len > 0 && s[0] != '/') {
    for (size_t i = 1; i < VERIF_PATHLEN; i++) {
      if (i < len && s[i] == '/') spec = true;
    }
  }
  bool verif_rv = path_is_relative(path);
  V_ASSERT("C03/path_is_relative.non_empty_not_absolute_with_directory_component", verif_rv == spec);
  if (verif_rv) V_CANARY("path.relative_reachable"); else V_CANARY("path.not_relative_reachable");
  if (len == 0) V_CANARY("path.empty_string_reachable");
  (free)(s);
}
#endif
