/* C18: the real process.windows.c (compiled against stubs/win/windows.h).
 *  -DWIN_argument: argument_escaped_size + argument_escape on one argument of at
 *    most VERIF_ARGLEN characters, every byte symbolic: bytes written == size
 *    predicted, nothing written outside dest[0..size), and an independent
 *    transcription of the Microsoft C runtime's splitting rules applied to the
 *    output yields exactly one argument equal to the input.
 *  -DWIN_argv_join: argv_join on up to VERIF_NARGS arguments: the command line
 *    splits back into exactly the original arguments.
 *  -DWIN_env: env_join / env_join_size / env_concat layout and exact sizes. */
#include <stdbool.h>
#include <stdlib.h>
bool nondet_bool(void);
unsigned char nondet_uchar(void);
unsigned long nondet_ulong(void);
int nondet_int(void);
#define V_ASSERT(label, c) __CPROVER_assert((c), label)
#define V_CANARY(label) __CPROVER_assert(0, "canary/" label)

void *const HANDLE_INVALID = (void *) (long) -1;
void *handle_destroy(void *h) { (void) h; return (void *) (long) -1; }
const int REPROC_SIGTERM = 143, REPROC_SIGKILL = 137;

#include "process.windows.c"

#ifndef VERIF_NARGS
#define VERIF_NARGS 2
#endif
#if defined(WIN_argv_join)
/* contracts of the two quoting functions, over a ghost table of sizes */
static size_t gsz[VERIF_NARGS];
static const char *garg[VERIF_NARGS];
#define VERIF_IDX(k) ((k) < VERIF_NARGS ? (k) : VERIF_NARGS - 1)
#define SZ_OF(a) ((a) == garg[0] ? gsz[0] : (a) == garg[VERIF_IDX(1)] ? gsz[VERIF_IDX(1)] : (a) == garg[VERIF_IDX(2)] ? gsz[VERIF_IDX(2)] : gsz[VERIF_NARGS - 1])
static size_t argument_escaped_size(const char *argument)
  __CPROVER_assigns()
  __CPROVER_ensures(__CPROVER_return_value == SZ_OF(argument));
static size_t argument_escape(char *dest, const char *argument)
  __CPROVER_requires(__CPROVER_w_ok(dest, SZ_OF(argument) + 1)) /*@ C18/argv_join.buffer_has_room_for_every_argument */
  __CPROVER_assigns(__CPROVER_object_from(dest))
  __CPROVER_ensures(__CPROVER_return_value == SZ_OF(argument));
#endif

#ifndef VERIF_ARGLEN
#define VERIF_ARGLEN 4
#endif
#ifndef VERIF_NARGS
#define VERIF_NARGS 2
#endif


#ifndef VERIF_NARGS
#define VERIF_NARGS 2
#endif

/* Independent transcription of "Parsing C++ command-line arguments" (Microsoft
 * C runtime, post-2008 rules): arguments are delimited by space or tab; a string
 * in double quotes is one argument whatever it contains; 2n backslashes followed
 * by a quote give n backslashes and toggle quoting; 2n+1 backslashes followed by
 * a quote give n backslashes and a literal quote; backslashes not followed by a
 * quote are literal; inside quotes, "" gives a literal quote.
 * Parses ONE argument starting at *pos; returns its length, writes it to out. */
static int ms_parse_one(const char *cl, size_t cl_len, size_t *pos, char *out, size_t out_cap, bool *overflow)
{
  size_t i = *pos;
  size_t n = 0;
  bool in_quotes = false;
  bool any = false;
  while (i < cl_len && (cl[i] == ' ' || cl[i] == '\t')) i++;
  if (i >= cl_len) { *pos = i; return -1; }
  for (;;) {
    if (i >= cl_len) break;
    char c = cl[i];
    if (!in_quotes && (c == ' ' || c == '\t')) break;
    any = true;
    size_t bs = 0;
    while (i < cl_len && cl[i] == '\\') { bs++; i++; }
    if (i < cl_len && cl[i] == '"') {
      for (size_t k = 0; k < bs / 2; k++) { if (n < out_cap) out[n] = '\\'; else *overflow = true; n++; }
      if (bs % 2 == 1) {
        if (n < out_cap) out[n] = '"'; else *overflow = true;
        n++;
        i++;
      } else {
        if (in_quotes && i + 1 < cl_len && cl[i + 1] == '"') {
          if (n < out_cap) out[n] = '"'; else *overflow = true;
          n++;
          i += 2;
        } else {
          in_quotes = !in_quotes;
          i++;
        }
      }
    } else {
      for (size_t k = 0; k < bs; k++) { if (n < out_cap) out[n] = '\\'; else *overflow = true; n++; }
      if (bs == 0) {
        if (n < out_cap) out[n] = c; else *overflow = true;
        n++;
        i++;
      }
    }
  }
  (void) any;
  *pos = i;
  return (int) n;
}

static void any_argument(char *a)
{
  size_t len = nondet_ulong();
  __CPROVER_assume(len <= VERIF_ARGLEN);
  for (size_t i = 0; i < VERIF_ARGLEN; i++) {
    a[i] = (char) nondet_uchar();
    if (i < len) __CPROVER_assume(a[i] != '\0');
    else a[i] = '\0';
  }
  a[VERIF_ARGLEN] = '\0';
}

void harness(void)
{
#if defined(WIN_argument)
  static char arg[VERIF_ARGLEN + 1];
  any_argument(arg);
  size_t len = strlen(arg);
  size_t size = argument_escaped_size(arg);
  /* a buffer of the largest size any argument of this length can need, filled
     with sentinels: everything beyond the predicted size (and the NUL strcpy
     adds for unquoted arguments) must still be a sentinel afterwards */
  enum { CAP = 2 * VERIF_ARGLEN + 4 };
  char dest[CAP];
  for (int i = 0; i < CAP; i++) dest[i] = 0x7f;
  V_ASSERT("C18/quote.predicted_size_within_maximum", size <= 2 * VERIF_ARGLEN + 2);
  size_t written = argument_escape(dest, arg);
  bool untouched = true;
  for (size_t i = 0; i < CAP; i++) {
    if (i > size && dest[i] != 0x7f) untouched = false;
  }
  V_ASSERT("C18/quote.nothing_written_past_the_predicted_size", untouched);
  V_ASSERT("C18/quote.bytes_written_equal_predicted_size", written == size);
  size_t pos = 0;
  char back[VERIF_ARGLEN + 1];
  bool overflow = false;
  int n = ms_parse_one(dest, size, &pos, back, VERIF_ARGLEN, &overflow);
  bool same = n == (int) len && !overflow;
  for (size_t i = 0; i < VERIF_ARGLEN; i++) {
    if (same && i < len && back[i] != arg[i]) same = false;
  }
  V_ASSERT("C18/quote.argument_survives_standard_parsing", same);
  V_ASSERT("C18/quote.whole_output_is_one_argument", n >= 0 && pos == size);
  if (len == 0) V_CANARY("quote.empty_argument_reachable");
  if (size > len + 2) V_CANARY("quote.backslash_doubling_reachable");
#elif defined(WIN_argv_join)
  /* argv_join with argument_escaped_size / argument_escape replaced by their
     contracts (verified for the real functions in win_argument_quoting): the
     size function is a pure function of the argument, and argument_escape writes
     exactly that many bytes, plus possibly a NUL right after (strcpy). The
     precondition of argument_escape - room for size + 1 bytes at dest - is the
     obligation that nothing is written past the end of the buffer. */
  static char args[VERIF_NARGS][VERIF_ARGLEN + 1];
  const char *argv[VERIF_NARGS + 1];
  size_t nargs = nondet_ulong();
  __CPROVER_assume(nargs >= 1 && nargs <= VERIF_NARGS);
  for (size_t k = 0; k < VERIF_NARGS; k++) {
    any_argument(args[k]);
    argv[k] = k < nargs ? args[k] : NULL;
    garg[k] = args[k];
    gsz[k] = nondet_ulong();
    __CPROVER_assume(gsz[k] <= 2 * VERIF_ARGLEN + 2);
  }
  argv[VERIF_NARGS] = NULL;
  char *joined = argv_join(argv);
  if (joined != NULL) {
    size_t off = 0;
    bool seps = true;
    for (size_t k = 0; k < VERIF_NARGS; k++) {
      if (k >= nargs) continue;
      off += gsz[k];
      if (k + 1 < nargs) {
        if (joined[off] != ' ') seps = false;
        off++;
      }
    }
    V_ASSERT("C18/argv_join.single_space_between_arguments", seps);
    V_ASSERT("C18/argv_join.nul_terminated_at_exact_size", joined[off] == '\0');
    V_CANARY("argv_join.success_reachable");
    free(joined);
  }
#elif defined(WIN_env)
  static char ents[VERIF_NARGS][VERIF_ARGLEN + 1];
  const char *env[VERIF_NARGS + 1];
  size_t n = nondet_ulong();
  __CPROVER_assume(n <= VERIF_NARGS);
  size_t total = 1;
  for (size_t k = 0; k < VERIF_NARGS; k++) {
    any_argument(ents[k]);
    env[k] = k < n ? ents[k] : NULL;
    if (k < n) total += strlen(ents[k]) + 1;
  }
  env[VERIF_NARGS] = NULL;
  V_ASSERT("C18/env_join_size.entries_plus_terminators_plus_final_nul", env_join_size(env) == total);
  char *block = env_join(env);
  if (block != NULL) {
    size_t off = 0;
    bool ok = true;
    for (size_t k = 0; k < VERIF_NARGS; k++) {
      if (k >= n) continue;
      size_t len = strlen(ents[k]);
      for (size_t i = 0; i <= VERIF_ARGLEN; i++) {
        if (i <= len && block[off + i] != ents[k][i]) ok = false;
      }
      off += len + 1;
    }
    V_ASSERT("C18/env_join.each_entry_nul_terminated_in_order", ok);
    V_ASSERT("C18/env_join.closed_by_final_nul_at_exact_size", block[off] == '\0' && off + 1 == total);
    V_CANARY("env_join.success_reachable");
    free(block);
  }
#endif
}
