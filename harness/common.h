/* Helpers shared by the harnesses: nondeterministic ghost / handle states. */
#ifndef VERIF_COMMON_H
#define VERIF_COMMON_H

#include <reproc/reproc.h>

/* the child ledger in an arbitrary consistent state */
static inline void ghost_child_any(void)
{
  g.child_pid = nondet_int();
  g.child_live = nondet_bool();
  g.child_reaped = nondet_bool();
  g.child_wstatus = nondet_int();
  g.reaps = nondet_int();
  g.nsig = nondet_int();
  g.kill_calls = nondet_int();
  g.wait_calls = nondet_int();
  g.pl.poll_calls = nondet_int();
  g.rl.rd_calls = nondet_uint();
  g.wl.wr_calls = nondet_uint();
  __CPROVER_assume(g.child_pid >= 0 && WST_LEGAL(g.child_wstatus));
  __CPROVER_assume(g.reaps >= 0 && g.reaps <= 1 && g.nsig >= 0 && g.nsig < 3);
  __CPROVER_assume(g.kill_calls >= 0 && g.kill_calls < 50 && g.wait_calls >= 0 && g.wait_calls < 50);
  __CPROVER_assume(g.pl.poll_calls >= 0 && g.pl.poll_calls < 50);
  __CPROVER_assume(IMPLIES(g.child_pid == 0, !g.child_live && !g.child_reaped && g.reaps == 0));
  __CPROVER_assume(IMPLIES(g.child_pid > 0, g.child_live != g.child_reaped && g.child_reaped == (g.reaps == 1)));
  g.child_fate = FATE_NONE;
}

#endif
