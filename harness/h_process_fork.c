/* process_fork enforced against its contract, one side of fork at a time
 * (-DSIDE_PARENT / -DSIDE_CHILD), with every OS call allowed to fail. */
#include "process.posix.c"
#include "static_process.h"
#include "common.h"

void harness(void)
{
  ghost_init();
  g.child_pid = 0;
  g.nsig = nondet_int();
  g.kill_calls = nondet_int();
  g.reaps = 0;
  __CPROVER_assume(g.nsig >= 0 && g.nsig < 3 && g.kill_calls >= 0 && g.kill_calls < 50);
  gc.cfg_rlim_cur = nondet_ulong();
  __CPROVER_assume(gc.cfg_rlim_cur >= 1); /* a soft limit of 0 descriptors is not considered */
#if defined(SIDE_CHILD)
  gc.cfg_child_side = true;
#else
  gc.cfg_child_side = false;
#endif
  int ex[6];
  ex[0] = nondet_int(); ex[1] = nondet_int(); ex[2] = nondet_int();
  ex[3] = nondet_int(); ex[4] = nondet_int(); ex[5] = nondet_int();
  const int *except = ex;
  size_t num_except = 6;
#include "gen/pre_process_fork.inc"
  pid_t verif_rv = process_fork(except, num_except);
#include "gen/post_process_fork.inc"
#if defined(SIDE_CHILD)
  V_CANARY("process_fork.child_returns_reachable");
  if (gc.cfg_rlim_cur < 32) V_CANARY("process_fork.low_limit_reachable");
#else
  if (verif_rv > 0) V_CANARY("process_fork.parent_success_reachable");
  if (verif_rv < 0 && g.child_pid > 0) V_CANARY("process_fork.child_failed_reachable");
  if (verif_rv < 0 && g.child_pid == 0) V_CANARY("process_fork.parent_failure_reachable");
#endif
}
