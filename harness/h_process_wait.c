/* C01/C06: process_wait: one blocking waitpid on the own child; exact status. */
#include "common.h"

void harness(void)
{
  ghost_init();
  ghost_child_any();
  pid_t process = nondet_int();
  /* REQ of the contract (asserted at every replaced call site) */
  __CPROVER_assume(process > 0 && process == g.child_pid && g.child_live && !g.child_reaped);
#include "gen/pre_process_wait.inc"
  int verif_rv = process_wait(process);
#include "gen/post_process_wait.inc"
  if (verif_rv >= 0) {
    V_CANARY("process_wait.status_reachable");
  } else {
    V_CANARY("process_wait.error_reachable");
  }
}
