/* reproc_start enforced against its contract (parent side of fork, plus the
 * fork-mode child): parse_options, redirect_init, redirect_destroy, setup_input,
 * process_start and now replaced by their contracts; pipe_init, pipe_destroy,
 * init/deinit inlined. Every option field symbolic, every OS call fallible. */
#include "reproc.c"
#include "static_reproc.h"
#include "common_reproc.h"

void harness(void)
{
  ghost_init();
  ghost_child_any();
  reproc_t *process = any_process(true);
  if (process != NULL && process->status == ST_NOT_STARTED) {
    /* the one child of the ghost ledger belongs to this handle */
    __CPROVER_assume(g.child_pid == 0 && g.fork_stage == 0);
  }
#if defined(SIDE_CHILD)
  gc.cfg_child_side = true;
#endif

  static const char p_in[] = "in", p_out[] = "out", p_err[] = "err", p_all[] = "all", wd[] = "wd";
  static const uint8_t data[4];
  gc.cfg_path[0] = p_in; gc.cfg_path[1] = p_out; gc.cfg_path[2] = p_err; gc.cfg_path[3] = p_all;

  reproc_options options;
  options.working_directory = nondet_bool() ? wd : NULL;
  options.env.behavior = nondet_bool() ? REPROC_ENV_EMPTY : REPROC_ENV_EXTEND;
  options.env.extra = NULL;
  options.redirect.in.type = (REPROC_REDIRECT) nondet_int();
  options.redirect.in.handle = nondet_int();
  options.redirect.in.file = nondet_bool() ? VERIF_USER_FILE : NULL;
  options.redirect.in.path = nondet_bool() ? p_in : NULL;
  options.redirect.out.type = (REPROC_REDIRECT) nondet_int();
  options.redirect.out.handle = nondet_int();
  options.redirect.out.file = nondet_bool() ? VERIF_USER_FILE : NULL;
  options.redirect.out.path = nondet_bool() ? p_out : NULL;
  options.redirect.err.type = (REPROC_REDIRECT) nondet_int();
  options.redirect.err.handle = nondet_int();
  options.redirect.err.file = nondet_bool() ? VERIF_USER_FILE : NULL;
  options.redirect.err.path = nondet_bool() ? p_err : NULL;
  options.redirect.parent = nondet_bool();
  options.redirect.discard = nondet_bool();
  options.redirect.file = nondet_bool() ? VERIF_USER_FILE : NULL;
  options.redirect.path = nondet_bool() ? p_all : NULL;
  options.stop.first.action = (REPROC_STOP) nondet_int();
  options.stop.first.timeout = nondet_int();
  options.stop.second.action = (REPROC_STOP) nondet_int();
  options.stop.second.timeout = nondet_int();
  options.stop.third.action = (REPROC_STOP) nondet_int();
  options.stop.third.timeout = nondet_int();
  options.deadline = nondet_int();
  options.input.data = nondet_bool() ? data : NULL;
  options.input.size = nondet_ulong();
  options.fork = nondet_bool();
  options.nonblocking = nondet_bool();
  __CPROVER_assume(options.input.size <= sizeof(data));
  /* redirect types within the enumeration (the documented domain) */
  __CPROVER_assume(OPT_TYPES_IN_RANGE(options));

  const char *arr[2];
  arr[0] = nondet_bool() ? "prog" : NULL;
  arr[1] = NULL;
  const char *const *argv = nondet_bool() ? arr : NULL;

  /* the environment the user provides: what fileno answers for the parent's
     standard streams and the user's FILE, and user handles that are open and
     not the library's */
  gc.cfg_std_fileno[0] = nondet_bool() ? 0 : -1;
  gc.cfg_std_fileno[1] = nondet_bool() ? 1 : -1;
  gc.cfg_std_fileno[2] = nondet_bool() ? 2 : -1;
  gc.cfg_file_fd = nondet_int();
  __CPROVER_assume(gc.cfg_file_fd >= -1 && gc.cfg_file_fd < 32);
#define USER_FD_OK(fd) (IS_OPEN(fd) && !IS_LIB(fd))
  __CPROVER_assume(IMPLIES(gc.cfg_std_fileno[0] >= 0, USER_FD_OK(0)) && IMPLIES(gc.cfg_std_fileno[1] >= 0, USER_FD_OK(1)) &&
                   IMPLIES(gc.cfg_std_fileno[2] >= 0, USER_FD_OK(2)) && IMPLIES(gc.cfg_file_fd >= 0, USER_FD_OK(gc.cfg_file_fd)));
  __CPROVER_assume(IMPLIES(options.redirect.in.handle != 0, USER_FD_OK(options.redirect.in.handle)) &&
                   IMPLIES(options.redirect.out.handle != 0, USER_FD_OK(options.redirect.out.handle)) &&
                   IMPLIES(options.redirect.err.handle != 0, USER_FD_OK(options.redirect.err.handle)));
  gc.in_data = options.input.data;
  gc.in_size = options.input.size;
  gc.cfg_wd = options.working_directory;
  static char *parent_env[1] = { NULL };
  environ = parent_env;

#include "gen/pre_reproc_start.inc"
  int verif_rv = reproc_start(process, argv, options);
#include "gen/post_reproc_start.inc"
#if defined(SIDE_CHILD)
  if (verif_rv == 0) V_CANARY("reproc_start.fork_child_reachable");
#else
  if (verif_rv > 0) V_CANARY("reproc_start.success_reachable");
  if (verif_rv > 0 && process->pipe.in == -1 && options.input.data != NULL) V_CANARY("reproc_start.success_with_input_reachable");
  if (verif_rv < 0 && verif_rv != -EINVAL) V_CANARY("reproc_start.failure_reachable");
  if (verif_rv == -EINVAL && process != NULL && g.e.os_calls == 0) V_CANARY("reproc_start.rejected_reachable");
#endif
  if (!g.in_child || verif_rv != 0) {
    /* (in the fork-mode child the caller owns the handle: released by destroy) */
  }
  (free)(process);
}
