/* C16: the string sink accumulates exactly the bytes received, NUL-terminated,
 * also when it was non-empty before and when allocation fails (bounded
 * contents: VERIF_SLEN previous characters + VERIF_SLEN new bytes). */
#include "common.h"
#include "drain.c"

#ifndef VERIF_SLEN
#define VERIF_SLEN 3
#endif

void harness(void)
{
  ghost_init();
  size_t old_len = nondet_ulong();
  __CPROVER_assume(old_len <= VERIF_SLEN);
  char snapshot[VERIF_SLEN + 1];
  char *str = NULL;
  if (nondet_bool()) {
    str = (malloc)(old_len + 1);
    __CPROVER_assume(str != NULL);
    for (size_t i = 0; i < VERIF_SLEN; i++) {
      if (i < old_len) {
        str[i] = (char) nondet_uchar();
        __CPROVER_assume(str[i] != '\0');
        snapshot[i] = str[i];
      }
    }
    str[old_len] = '\0';
  } else {
    old_len = 0;
  }
  uint8_t buf[VERIF_SLEN];
  for (size_t i = 0; i < VERIF_SLEN; i++) buf[i] = nondet_uchar();
  size_t size = nondet_ulong();
  __CPROVER_assume(size <= VERIF_SLEN);
  char *before = str;

  reproc_sink s = reproc_sink_string(&str);
  V_ASSERT("C16/sink_string.sink_carries_the_output_pointer", s.function == sink_string && s.context == (void *) &str);
  int rv = s.function(REPROC_STREAM_OUT, buf, size, s.context);

  V_ASSERT("C16/sink_string.zero_or_enomem", rv == 0 || rv == -ENOMEM);
  if (rv == 0) {
    bool ok = str != NULL;
    for (size_t i = 0; i < VERIF_SLEN; i++) {
      if (ok && i < old_len && str[i] != snapshot[i]) ok = false;
      if (ok && i < size && (uint8_t) str[old_len + i] != buf[i]) ok = false;
    }
    V_ASSERT("C16/sink_string.previous_content_then_exactly_the_bytes_received", ok);
    V_ASSERT("C16/sink_string.nul_terminated", str != NULL && str[old_len + size] == '\0');
    if (old_len > 0 && size > 0) V_CANARY("sink_string.append_to_non_empty_reachable");
  } else {
    bool ok = str == before;
    for (size_t i = 0; i < VERIF_SLEN; i++) {
      if (ok && str != NULL && i < old_len && str[i] != snapshot[i]) ok = false;
    }
    V_ASSERT("C16/sink_string.allocation_failure_keeps_previous_output", ok && (str == NULL || str[old_len] == '\0'));
    V_CANARY("sink_string.allocation_failure_reachable");
  }
  void *z = reproc_free(str);
  V_ASSERT("C05/reproc_free.returns_null", z == NULL);
}
