/* C02/C17: setup_input with its loop closed by a loop contract (unbounded in
 * the input size and in the number of partial writes). */
#include "reproc.c"
#include "static_reproc.h"
#include "common_reproc.h"

void harness(void)
{
  ghost_init();
  ghost_child_any();
  size_t size = nondet_ulong();
  __CPROVER_assume(size <= VERIF_MAX_BUF);
  const uint8_t *data = nondet_bool() ? NULL : (malloc)(size);
  if (data == NULL) {
    size = 0;
  }
  int fd = nondet_int();
  pipe_type *pipe = &fd;
  __CPROVER_assume(data == NULL || (IS_OPEN(fd) && IS_LIB(fd)));
  gc.in_data = data;
  gc.in_size = size;
  g.stream_pos = 0;
  g.in_fd = -1;
#include "gen/pre_setup_input.inc"
  int verif_rv = setup_input(pipe, data, size);
#include "gen/post_setup_input.inc"
  if (verif_rv == 0 && data != NULL && size > 4096) V_CANARY("setup_input.large_input_delivered_reachable");
  if (verif_rv < 0) V_CANARY("setup_input.failure_reachable");
  (free)((void *) data);
}
