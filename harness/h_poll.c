/* Poll family (C08, C09), bounded in the number of sources (VERIF_NSRC):
 * -DPOLL_find_earliest_deadline / -DPOLL_reproc_poll. Sources may be
 * process-less, may share a handle, in any order; deadlines absent, future or
 * expired; interests and timeout arbitrary. */
#include "reproc.c"
#include "static_reproc.h"
#include "common_reproc.h"

/* Executable contract of now() (clock.posix.c is not linked into this harness;
   the real now() is enforced against the same statement in harness `now`):
   virtual time passes, monotonically, and the reading is the clock. */
int64_t now(void)
{
  long d = nondet_long();
  __CPROVER_assume(d >= 0 && d <= 0x7fffffffL);
  g.now += d;
  if (g.e.os_calls < 1000000) g.e.os_calls++;
  return g.now;
}

static reproc_t *poll_process(void)
{
  reproc_t *p = (malloc)(sizeof(reproc_t));
  __CPROVER_assume(p != NULL);
  p->handle = nondet_int();
  p->pipe.in = nondet_int();
  p->pipe.out = nondet_int();
  p->pipe.err = nondet_int();
  p->pipe.exit = nondet_int();
  p->status = nondet_int();
  p->deadline = nondet_long();
  p->nonblocking = nondet_bool();
  p->child.out = -1;
  p->child.err = -1;
  __CPROVER_assume(INV_POLL(p));
  return p;
}

/* ---- specification helpers: plain loops over the (bounded) sources ------------ */
#define VERIF_MAXSRC (VERIF_NSRC > 3 ? VERIF_NSRC : 3)
static reproc_event_source src[VERIF_NSRC];     /* exactly as many as are passed: reading one more is out of bounds */
static reproc_event_source src0[VERIF_MAXSRC]; /* as passed in */
static size_t nsrc;

static bool has_dl(size_t k) { return k < nsrc && src0[k].process != NULL && src0[k].process->deadline != -1; }
static int64_t dl(size_t k) { return src0[k].process->deadline; }
/* index of a source with the earliest absolute deadline, or -1 */
static int spec_earliest(void)
{
  int best = -1;
  for (size_t k = 0; k < VERIF_NSRC; k++) {
    if (has_dl(k) && (best < 0 || dl(k) < dl((size_t) best))) best = (int) k;
  }
  return best;
}
static bool spec_any_expired(int64_t at)
{
  for (size_t k = 0; k < VERIF_NSRC; k++) {
    if (has_dl(k) && dl(k) <= at) return true;
  }
  return false;
}
/* the pipe reproc_poll must hand to poll in slot 4k+j, per the documentation of
   the interests (reproc.h :299-311) */
static int spec_slot(size_t k, int j)
{
  reproc_t *p = src0[k].process;
  int in = src0[k].interests;
  if (p == NULL) return -1;
  switch (j) {
    case 0: return (in & 1) ? p->pipe.in : -1;
    case 1: return (in & 2) ? p->pipe.out : -1;
    case 2: return (in & 4) ? p->pipe.err : -1;
    default: return (in & 8) ? p->pipe.exit : -1;
  }
}
static bool spec_nothing_to_poll(void)
{
  for (size_t k = 0; k < VERIF_NSRC; k++) {
    if (k >= nsrc) continue;
    for (int j = 0; j < 4; j++) {
      if (spec_slot(k, j) != -1) return false;
    }
  }
  return true;
}
static int spec_events(size_t k)
{
  int e = 0;
  for (int j = 0; j < 4; j++) {
    if (spec_slot(k, j) != -1 && g.pl.poll_rev[4 * k + (size_t) j] > 0) e |= 1 << j;
  }
  return e;
}
/* exactly source r carries the deadline event and nothing else is reported */
static bool only_deadline_on(size_t r)
{
  for (size_t k = 0; k < VERIF_NSRC; k++) {
    if (k >= nsrc) continue;
    if (src[k].events != (k == r ? 16 : 0)) return false;
  }
  return true;
}

void harness(void)
{
  ghost_init();
  reproc_t *pa = poll_process();
  reproc_t *pb = poll_process();
  reproc_t *pc = poll_process();
  /* the number of sources is fixed per harness instance (VERIF_NSRC = 1, 2, 3):
     a symbolic count makes every array in reproc_poll symbolically sized */
  size_t num_sources = VERIF_NSRC;
  for (int k = 0; k < VERIF_NSRC; k++) {
    int which = nondet_int();
    src[k].process = which == 0 ? NULL : which == 1 ? pa : which == 2 ? pb : pc;
    src[k].interests = nondet_int();
    src[k].events = nondet_int();
  }
  reproc_event_source *sources = src;
  nsrc = num_sources;
  for (int k = 0; k < VERIF_NSRC; k++) src0[k] = src[k];
  int64_t now0 = g.now;
  /* frame snapshots ('light' enforcement: the frame is asserted explicitly) */
  reproc_t a0 = *pa, b0 = *pb, c0 = *pc;
  struct ghost g0 = g;

#if defined(POLL_find_earliest_deadline)
#include "gen/pre_find_earliest_deadline.inc"
  size_t verif_rv = find_earliest_deadline(sources, num_sources);
#include "gen/post_find_earliest_deadline.inc"
  {
    int best = spec_earliest();
    /* C08: an expired deadline wins; otherwise the earliest absolute deadline
       wins, wherever process-less sources and sources without deadline sit */
    V_ASSERT("C08/poll.find_earliest.expired_deadline_wins",
             IMPLIES(spec_any_expired(now0), has_dl(verif_rv) && dl(verif_rv) <= g.now));
    V_ASSERT("C08/poll.find_earliest.earliest_absolute_deadline_whatever_the_order",
             IMPLIES(best >= 0 && !spec_any_expired(g.now), has_dl(verif_rv) && dl(verif_rv) == dl((size_t) best)));
  }
  if (num_sources == VERIF_NSRC && src[0].process != NULL && src[0].process->deadline != -1 &&
      src[VERIF_NSRC - 1].process != NULL && src[VERIF_NSRC - 1].process->deadline == -1) {
    V_CANARY("poll.deadline_then_no_deadline_reachable");
  }
  if (verif_rv == VERIF_NSRC - 1) V_CANARY("poll.last_source_wins_reachable");
#elif defined(POLL_reproc_poll)
  int timeout = nondet_int();
  __CPROVER_assume(timeout >= -1); /* milliseconds, or REPROC_INFINITE (reproc.h :374-375) */
#if VERIF_NSRC == 1
  /* misuse (C14): no sources at all - a null array with any count, or an empty
     array (an object of zero bytes) - is rejected before anything is touched */
  if (nondet_bool()) {
    bool null_array = nondet_bool();
    reproc_event_source *ms = null_array ? NULL : (malloc)(0);
    __CPROVER_assume(null_array || ms != NULL);
    size_t mn = null_array ? (size_t) nondet_ulong() : 0;
    int mr = reproc_poll(ms, mn, timeout);
    V_ASSERT("C14/poll.null_or_empty_sources_rejected_without_side_effect",
             mr == -EINVAL && g.e.os_calls == g0.e.os_calls && g.fds.open == g0.fds.open && g.fds.lib == g0.fds.lib &&
                 g.pl.poll_calls == g0.pl.poll_calls && g.e.faults == g0.e.faults);
    V_CANARY("poll.misuse_reachable");
    (free)(ms);
    (free)(pa);
    (free)(pb);
    (free)(pc);
    return;
  }
#endif
#include "gen/pre_reproc_poll.inc"
  int verif_rv = reproc_poll(sources, num_sources, timeout);
#include "gen/post_reproc_poll.inc"
  {
    int best = spec_earliest();
    bool polled = g.pl.poll_calls == 1;
    /* C08: an expired deadline is reported at once, without touching the OS */
    if (spec_any_expired(now0)) {
      V_ASSERT("C08/poll.expired_deadline_reported_at_once", verif_rv == 1 && g.pl.poll_calls == 0);
      bool found = false;
      for (size_t r = 0; r < VERIF_NSRC; r++) {
        if (r < nsrc && has_dl(r) && dl(r) <= g.now && only_deadline_on(r)) found = true;
      }
      V_ASSERT("C08/poll.expired_deadline_event_only_on_an_expired_source", found);
    }
    /* C09: EPIPE exactly when nothing requested can be polled */
    V_ASSERT("C09/poll.epipe_iff_nothing_to_poll",
             IMPLIES(verif_rv == -EPIPE, spec_nothing_to_poll() && g.pl.poll_calls == 0) &&
                 IMPLIES(spec_nothing_to_poll() && !spec_any_expired(g.now) && g.e.faults == 0, verif_rv == -EPIPE));
    V_ASSERT("C09/poll.at_most_one_poll", g.pl.poll_calls <= 1);
    if (polled) {
      /* the kernel is asked about exactly the requested streams */
      bool slots_ok = g.pl.poll_nfds == 4 * nsrc;
      for (size_t k = 0; k < VERIF_NSRC; k++) {
        if (k >= nsrc) continue;
        for (int j = 0; j < 4; j++) {
          size_t i = 4 * k + (size_t) j;
          if (g.pl.poll_fdv[i] != spec_slot(k, j)) slots_ok = false;
          if (spec_slot(k, j) != -1 && g.pl.poll_evv[i] != (j == 0 ? POLLOUT : POLLIN)) slots_ok = false;
        }
      }
      V_ASSERT("C09/poll.kernel_asked_about_exactly_the_requested_streams", slots_ok);
      /* C08: never blocks past the smaller of the timeout and the earliest deadline */
      int want = timeout;
      if (best >= 0) {
        int64_t left = dl((size_t) best) - g.pl.poll_at;
        want = (timeout == -1 || left < timeout) ? (int) left : timeout;
      }
      V_ASSERT("C08/poll.blocks_at_most_until_timeout_or_earliest_deadline", g.pl.poll_timeout == want);
      if (g.pl.poll_ret == 0) {
        if (g.pl.poll_timeout == timeout) {
          bool none = true;
          for (size_t k = 0; k < VERIF_NSRC; k++) if (k < nsrc && src[k].events != 0) none = false;
          V_ASSERT("C08/poll.timeout_first_returns_zero_without_events", verif_rv == 0 && none);
        } else {
          V_ASSERT("C08/poll.deadline_first_is_deadline_event_on_earliest_source",
                   verif_rv == 1 && best >= 0);
          bool found = false;
          for (size_t r = 0; r < VERIF_NSRC; r++) {
            if (r < nsrc && has_dl(r) && dl(r) == dl((size_t) best) && only_deadline_on(r)) found = true;
          }
          V_ASSERT("C08/poll.deadline_event_only_on_an_earliest_source", found);
        }
      }
      if (g.pl.poll_ret > 0) {
        bool exact = verif_rv >= 0;
        for (size_t k = 0; k < VERIF_NSRC; k++) {
          if (k < nsrc && src[k].events != spec_events(k)) exact = false;
        }
        V_ASSERT("C09/poll.events_are_exactly_what_the_kernel_reported", exact);
      }
    }
  }
#define SAME_HANDLE(p, q) ((p)->handle == (q).handle && (p)->pipe.in == (q).pipe.in && (p)->pipe.out == (q).pipe.out && (p)->pipe.err == (q).pipe.err && (p)->pipe.exit == (q).pipe.exit && (p)->status == (q).status && (p)->deadline == (q).deadline && (p)->nonblocking == (q).nonblocking && (p)->child.out == (q).child.out && (p)->child.err == (q).child.err)
  V_ASSERT("C09+C14/poll.frame_handles_untouched", SAME_HANDLE(pa, a0) && SAME_HANDLE(pb, b0) && SAME_HANDLE(pc, c0));
  V_ASSERT("C05+C06/poll.frame_descriptors_and_child_untouched",
           g.fds.open == g0.fds.open && g.fds.lib == g0.fds.lib && g.fds.cloexec == g0.fds.cloexec &&
               g.fds.nonblock == g0.fds.nonblock && g.nsig == g0.nsig && g.reaps == g0.reaps &&
               g.kill_calls == g0.kill_calls && g.wait_calls == g0.wait_calls && g.child_pid == g0.child_pid &&
               g.rl.rd_calls == g0.rl.rd_calls && g.wl.wr_calls == g0.wl.wr_calls && g.sigmask == g0.sigmask);
  if (verif_rv == 0) V_CANARY("poll.timeout_reachable");
  if (verif_rv > 0 && g.pl.poll_calls == 0) V_CANARY("poll.expired_deadline_reachable");
  if (verif_rv > 0 && g.pl.poll_calls == 1 && g.pl.poll_ret == 0) V_CANARY("poll.deadline_during_poll_reachable");
  if (verif_rv > 0 && g.pl.poll_ret > 0) V_CANARY("poll.events_reachable");
  if (verif_rv == -EPIPE) V_CANARY("poll.epipe_reachable");
#endif
  (free)(pa);
  (free)(pb);
  (free)(pc);
}
