/* C01: parse_status over the full int domain (loop-free => complete). */
#include "process.posix.c"
#include "static_process.h"

void harness(void)
{
  int status = nondet_int();
#include "gen/pre_parse_status.inc"
  int verif_rv = parse_status(status);
#include "gen/post_parse_status.inc"
  if (WST_LEGAL(status) && WST_EXITED(status)) {
    V_CANARY("parse_status.exited_reachable");
  }
  if (WST_LEGAL(status) && !WST_EXITED(status)) {
    V_CANARY("parse_status.signaled_reachable");
  }
}
