/* One API function of reproc.c enforced against its contract, on a handle in an
 * arbitrary state satisfying the representation invariant (so that, by
 * induction, the contracts hold after every call history: C01, C06, C14).
 * Selected by -DAPI_<name>. */
#include "reproc.c"
#include "static_reproc.h"
#include "common_reproc.h"

void harness(void)
{
  ghost_init();
  ghost_child_any();
  reproc_t *process = any_process(true);

#if defined(API_wait)
  int timeout = nondet_int();
#include "gen/pre_reproc_wait.inc"
  int verif_rv = reproc_wait(process, timeout);
#include "gen/post_reproc_wait.inc"
  if (verif_rv >= 0) V_CANARY("api.status_reachable");
  if (verif_rv == -ETIMEDOUT) V_CANARY("api.timeout_reachable");
  if (verif_rv == -EINVAL) V_CANARY("api.einval_reachable");
#elif defined(API_terminate)
#include "gen/pre_reproc_terminate.inc"
  int verif_rv = reproc_terminate(process);
#include "gen/post_reproc_terminate.inc"
  if (verif_rv == 0 && g.nsig > 0) V_CANARY("api.signal_sent_reachable");
  if (verif_rv == -EINVAL) V_CANARY("api.einval_reachable");
#elif defined(API_kill)
#include "gen/pre_reproc_kill.inc"
  int verif_rv = reproc_kill(process);
#include "gen/post_reproc_kill.inc"
  if (verif_rv == 0 && g.nsig > 0) V_CANARY("api.signal_sent_reachable");
  if (verif_rv == -EINVAL) V_CANARY("api.einval_reachable");
#elif defined(API_pid)
#include "gen/pre_reproc_pid.inc"
  int verif_rv = reproc_pid(process);
#include "gen/post_reproc_pid.inc"
  if (verif_rv > 0) V_CANARY("api.pid_reachable");
  if (verif_rv == -EINVAL) V_CANARY("api.einval_reachable");
#elif defined(API_close)
  REPROC_STREAM stream = (REPROC_STREAM) nondet_int();
#include "gen/pre_reproc_close.inc"
  int verif_rv = reproc_close(process, stream);
#include "gen/post_reproc_close.inc"
  if (verif_rv == 0) V_CANARY("api.closed_reachable");
  if (verif_rv == -EINVAL) V_CANARY("api.einval_reachable");
#elif defined(API_read)
  REPROC_STREAM stream = (REPROC_STREAM) nondet_int();
  size_t size = nondet_ulong();
  /* a caller buffer of exactly `size` bytes (size bounded only by the heap
     model), or NULL */
  __CPROVER_assume(size <= VERIF_MAX_BUF);
  uint8_t *buffer = nondet_bool() ? NULL : (malloc)(size);
#include "gen/pre_reproc_read.inc"
  int verif_rv = reproc_read(process, stream, buffer, size);
#include "gen/post_reproc_read.inc"
  if (verif_rv > 0) V_CANARY("api.data_reachable");
  if (verif_rv == -EPIPE) V_CANARY("api.epipe_reachable");
  if (verif_rv == -EINVAL) V_CANARY("api.einval_reachable");
  (free)(buffer);
#elif defined(API_write)
  size_t size = nondet_ulong();
  __CPROVER_assume(size <= VERIF_MAX_BUF);
  uint8_t *buffer = nondet_bool() ? NULL : (malloc)(size);
  size_t asked = nondet_bool() ? size : 0; /* NULL,0 and buf,0 are both legal */
  if (buffer == NULL) asked = nondet_bool() ? 0 : size;
  {
    size_t size = asked;
#include "gen/pre_reproc_write.inc"
    int verif_rv = reproc_write(process, buffer, size);
#include "gen/post_reproc_write.inc"
    if (verif_rv > 0) V_CANARY("api.data_reachable");
    if (verif_rv == -EPIPE) V_CANARY("api.epipe_reachable");
    if (verif_rv == -EINVAL) V_CANARY("api.einval_reachable");
  }
  (free)(buffer);
#elif defined(API_stop)
  reproc_stop_actions stop;
  stop.first.action = (REPROC_STOP) nondet_int();
  stop.first.timeout = nondet_int();
  stop.second.action = (REPROC_STOP) nondet_int();
  stop.second.timeout = nondet_int();
  stop.third.action = (REPROC_STOP) nondet_int();
  stop.third.timeout = nondet_int();
  if (process != NULL) {
    plan_from(stop, process->deadline);
  }
#include "gen/pre_reproc_stop.inc"
  int verif_rv = reproc_stop(process, stop);
#include "gen/post_reproc_stop.inc"
  if (verif_rv >= 0) V_CANARY("api.status_reachable");
  if (verif_rv == -ETIMEDOUT) V_CANARY("api.timeout_reachable");
  if (verif_rv == -EINVAL) V_CANARY("api.einval_reachable");
  if (g.nsig > 1 && gc.plan_on) V_CANARY("api.two_signals_reachable");
#elif defined(API_new)
  (free)(process);
  process = NULL;
  {
#include "gen/pre_reproc_new.inc"
    reproc_t *verif_rv = reproc_new();
#include "gen/post_reproc_new.inc"
    if (verif_rv != NULL) V_CANARY("api.new_handle_reachable"); else V_CANARY("api.new_failure_reachable");
    /* a new handle can be destroyed at once: nothing to stop, nothing to close */
    int os0 = g.e.os_calls;
    reproc_t *z = reproc_destroy(verif_rv);
    V_ASSERT("C14+C15/reproc_new.destroy_of_new_handle_touches_nothing", z == NULL && g.e.os_calls == os0);
  }
#elif defined(API_destroy)
  if (process != NULL && process->status == ST_IN_PROGRESS) {
    plan_from(process->stop, process->deadline);
    gc.cfg_release_after_stop = true;
    __CPROVER_assume(g.e.faults == 0);
  }
  if (process != NULL && process->status == ST_IN_CHILD) {
    g.in_child = true;
  }
  bool default_policy = process != NULL && (int) process->stop.first.action == 0 &&
                        (int) process->stop.second.action == 0 && (int) process->stop.third.action == 0;
  bool was_running = process != NULL && process->status == ST_IN_PROGRESS;
#include "gen/pre_reproc_destroy.inc"
  reproc_t *verif_rv = reproc_destroy(process);
#include "gen/post_reproc_destroy.inc"
  /* C15: with the default policy destroy does not return before the child has
     exited and been reaped (unless a system call failed) */
  V_ASSERT("C15/destroy.default_policy_never_abandons_running_child",
           IMPLIES(was_running && default_policy && g.e.faults == 0, g.child_reaped && g.reaps == 1));
  if (was_running && g.child_reaped) V_CANARY("api.destroy_reaped_reachable");
  if (was_running && default_policy && g.nsig > 0) V_CANARY("api.destroy_default_escalates_reachable");
  if (process == NULL) V_CANARY("api.destroy_null_reachable");
  process = NULL; /* freed by destroy */
#else
#error "select an API function"
#endif
  /* the handle is the harness's: release it so the leak check only sees the library */
  (free)(process);
}
