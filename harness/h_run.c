/* C16: reproc_run_ex / reproc_run sequence their callees correctly. reproc.c and
 * drain.c are not linked: reproc_new/start/drain/stop/destroy are executable
 * contracts (stubs) that answer anything their real contracts allow and log the
 * call; the real functions are enforced in their own harnesses. */
#include "common.h"
#include <reproc/run.h>

struct reproc_t { int dummy; };

enum { L_NEW = 1, L_START, L_DRAIN, L_STOP, L_DESTROY };
static struct {
  int n; int what[8];
  int r_start, r_drain, r_stop; bool new_failed;
  reproc_t *handle; bool destroyed_handle; int destroy_calls; bool destroy_null;
  reproc_options start_options; reproc_stop_actions stop_arg; const char *const *start_argv;
  reproc_sink drain_out, drain_err;
} lg;

static void note(int w) { if (lg.n < 8) lg.what[lg.n] = w; lg.n++; }

const reproc_sink REPROC_SINK_NULL = { NULL, NULL };
static int the_sink(REPROC_STREAM s, const uint8_t *b, size_t n, void *c) { (void) s; (void) b; (void) n; (void) c; return 0; }

reproc_t *reproc_new(void)
{
  note(L_NEW);
  if (nondet_bool()) { lg.new_failed = true; return NULL; }
  lg.handle = (malloc)(sizeof(reproc_t));
  __CPROVER_assume(lg.handle != NULL);
  return lg.handle;
}

int reproc_start(reproc_t *process, const char *const *argv, reproc_options options)
{
  note(L_START);
  V_ASSERT("C16/run.start_gets_the_new_handle_argv_and_options", process == lg.handle && process != NULL);
  lg.start_options = options;
  lg.start_argv = argv;
  lg.r_start = nondet_int();
  __CPROVER_assume(lg.r_start != 0); /* fork mode is rejected before: never 0 here */
  return lg.r_start;
}

int reproc_drain(reproc_t *process, reproc_sink out, reproc_sink err)
{
  note(L_DRAIN);
  V_ASSERT("C16/run.drain_gets_the_started_handle", process == lg.handle && lg.r_start > 0);
  lg.drain_out = out;
  lg.drain_err = err;
  lg.r_drain = nondet_int();
  return lg.r_drain;
}

int reproc_stop(reproc_t *process, reproc_stop_actions stop)
{
  note(L_STOP);
  V_ASSERT("C16/run.stop_after_successful_drain", process == lg.handle && lg.r_drain >= 0);
  lg.stop_arg = stop;
  lg.r_stop = nondet_int();
  return lg.r_stop;
}

reproc_t *reproc_destroy(reproc_t *process)
{
  note(L_DESTROY);
  lg.destroy_calls++;
  V_ASSERT("C05+C16/run.destroys_its_own_handle_once", process == lg.handle && !lg.destroyed_handle);
  if (process != NULL) {
    lg.destroyed_handle = true;
    (free)(process);
  } else {
    lg.destroy_null = true;
  }
  return NULL;
}

#include "run.c"

void harness(void)
{
  ghost_init();
  static const char *arr[2] = { "prog", NULL };
  const char *const *argv = nondet_bool() ? arr : NULL;
  reproc_options options = { 0 };
  options.fork = nondet_bool();
  options.redirect.parent = nondet_bool();
  options.redirect.discard = nondet_bool();
  options.redirect.file = nondet_bool() ? VERIF_USER_FILE : NULL;
  options.redirect.path = nondet_bool() ? "p" : NULL;
  options.stop.first.action = (REPROC_STOP) nondet_int();
  options.stop.first.timeout = nondet_int();
  options.deadline = nondet_int();
  reproc_sink out = { the_sink, NULL }, err = { the_sink, NULL };

#if defined(RUN_plain)
  int rv = reproc_run(argv, options);
  /* run.h :11-12: parent redirection unless discard (or file/path) is chosen; both sinks discard */
  if (!options.fork && lg.n >= 2 && lg.what[1] == L_START) {
    bool want_parent = options.redirect.parent || (!options.redirect.discard && options.redirect.file == NULL && options.redirect.path == NULL);
    V_ASSERT("C16/run.plain_run_redirects_to_parent_unless_discard_file_or_path", lg.start_options.redirect.parent == want_parent);
  }
#else
  int rv = reproc_run_ex(argv, options, out, err);
  if (lg.n >= 3 && lg.what[2] == L_DRAIN) {
    V_ASSERT("C16/run.sinks_passed_through", lg.drain_out.function == out.function && lg.drain_err.function == err.function);
  }
#endif

  if (options.fork) {
    V_ASSERT("C16/run.fork_mode_rejected_without_side_effect", rv == -EINVAL && lg.n == 0);
  } else {
    V_ASSERT("C16/run.starts_with_new", lg.n >= 2 && lg.what[0] == L_NEW);
    V_ASSERT("C05+C16/run.destroy_is_last_and_exactly_once", lg.destroy_calls == 1 && lg.what[lg.n - 1] == L_DESTROY && lg.n <= 6);
    if (lg.new_failed) {
      V_ASSERT("C16/run.allocation_failure_is_enomem", rv == -ENOMEM && lg.n == 2);
    } else {
      V_ASSERT("C16/run.options_and_argv_passed_to_start", lg.what[1] == L_START && lg.start_argv == argv && lg.start_options.deadline == options.deadline && lg.start_options.stop.first.timeout == options.stop.first.timeout);
      if (lg.r_start < 0) {
        V_ASSERT("C16/run.start_error_returned", rv == lg.r_start && lg.n == 3);
      } else if (lg.r_drain < 0) {
        V_ASSERT("C16/run.drain_error_returned_without_stop", rv == lg.r_drain && lg.n == 4 && lg.what[2] == L_DRAIN);
      } else {
        V_ASSERT("C16/run.returns_what_stop_returns_after_draining", rv == lg.r_stop && lg.n == 5 && lg.what[2] == L_DRAIN && lg.what[3] == L_STOP);
        V_ASSERT("C16/run.stops_with_the_callers_stop_actions", lg.stop_arg.first.action == options.stop.first.action && lg.stop_arg.first.timeout == options.stop.first.timeout);
        V_CANARY("run.full_sequence_reachable");
      }
    }
  }
  if (options.fork) V_CANARY("run.fork_rejected_reachable");
}
