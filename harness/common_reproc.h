/* Harness helpers for the functions of reproc.c (included after reproc.c and
 * static_reproc.h). */
#ifndef VERIF_COMMON_REPROC_H
#define VERIF_COMMON_REPROC_H

#include "common.h"

/* a handle in an arbitrary state satisfying the representation invariant,
   or NULL */
static reproc_t *any_process(bool allow_null)
{
  if (allow_null && nondet_bool()) {
    return NULL;
  }
  reproc_t *p = (malloc)(sizeof(reproc_t)); /* the real malloc: never fails here */
  __CPROVER_assume(p != NULL);
  p->handle = nondet_int();
  p->pipe.in = nondet_int();
  p->pipe.out = nondet_int();
  p->pipe.err = nondet_int();
  p->pipe.exit = nondet_int();
  p->status = nondet_int();
  p->stop.first.action = (REPROC_STOP) nondet_int();
  p->stop.first.timeout = nondet_int();
  p->stop.second.action = (REPROC_STOP) nondet_int();
  p->stop.second.timeout = nondet_int();
  p->stop.third.action = (REPROC_STOP) nondet_int();
  p->stop.third.timeout = nondet_int();
  p->deadline = nondet_long();
  p->nonblocking = nondet_bool();
  p->child.out = nondet_int();
  p->child.err = nondet_int();
  __CPROVER_assume(INV(p));
  return p;
}

/* Independent specification of a stop sequence (reproc.h :463-505 and the
   property C07): the OS-level steps, in order. */
static void plan_add(int kind, int arg)
{
  if (gc.plan_n < 8) {
    gc.plan_kind[gc.plan_n] = kind;
    gc.plan_arg[gc.plan_n] = arg;
  }
  gc.plan_n++;
}

static bool plan_action(reproc_stop_action a)
{
  switch ((int) a.action) {
    case 0: /* noop */
      return true;
    case 1: /* wait */
      plan_add(PLAN_WAIT, a.timeout);
      return true;
    case 2: /* terminate, then wait */
      plan_add(PLAN_KILL, SIGTERM);
      plan_add(PLAN_WAIT, a.timeout);
      return true;
    case 3: /* kill, then wait */
      plan_add(PLAN_KILL, SIGKILL);
      plan_add(PLAN_WAIT, a.timeout);
      return true;
    default:
      return false;
  }
}

static void plan_from(reproc_stop_actions s, int64_t deadline)
{
  gc.plan_on = true;
  gc.plan_n = 0;
  g.plan_pos = 0;
  gc.plan_invalid_at = -1;
  gc.plan_deadline = deadline;
  if ((int) s.first.action == 0 && (int) s.second.action == 0 && (int) s.third.action == 0) {
    /* all noop: wait until the deadline, then terminate and wait indefinitely */
    plan_add(PLAN_WAIT, -2);
    plan_add(PLAN_KILL, SIGTERM);
    plan_add(PLAN_WAIT, -1);
    return;
  }
  if (!plan_action(s.first) || !plan_action(s.second) || !plan_action(s.third)) {
    gc.plan_invalid_at = gc.plan_n;
  }
}

#endif
