/* C07/C06: process_terminate / process_kill (-DWHICH=process_terminate|process_kill). */
#include "common.h"

void harness(void)
{
  ghost_init();
  ghost_child_any();
  pid_t process = nondet_int();
  __CPROVER_assume(process > 0 && process == g.child_pid && g.child_live && !g.child_reaped);
#if defined(WHICH_TERMINATE)
#include "gen/pre_process_terminate.inc"
  int verif_rv = process_terminate(process);
#include "gen/post_process_terminate.inc"
#else
#include "gen/pre_process_kill.inc"
  int verif_rv = process_kill(process);
#include "gen/post_process_kill.inc"
#endif
  if (verif_rv == 0) {
    V_CANARY("process_signal.success_reachable");
  } else {
    V_CANARY("process_signal.failure_reachable");
  }
}
