/* C03: path_prepend_cwd - memory safety for ANY path length and any current
 * directory shorter than (VERIF_GROW + 1) * 4096 bytes, result layout, clean
 * failure. String lengths are ghost values carried by executable contracts of
 * strlen / memcpy / getcwd (no byte loop is unrolled): what is decided here is
 * that every access of path_prepend_cwd is inside the buffer it allocated. The
 * growth loop is a bounded stand-in: at most VERIF_GROW ERANGE answers. */
#include "rename.h"

#ifndef VERIF_GROW
#define VERIF_GROW 3
#endif

static size_t gp_len;          /* strlen(path) */
static const char *gp_path;
static size_t g_cwd_true_len;  /* length of the real current directory */
static size_t g_cwd_len;       /* what the last successful getcwd wrote */
static int g_getcwd_calls;
static char g_cwd_last;        /* last character of the current directory as getcwd wrote it */
static int g_copy_calls;       /* memcpy calls of path_prepend_cwd */
static const void *g_copy_dst; /* where the last one wrote */

static size_t verif_strlen(const char *s)
{
  if (s == gp_path) return gp_len;
  return g_cwd_len; /* the only other string path_prepend_cwd measures is its buffer */
}

static void *verif_memcpy(void *dst, const void *src, size_t n)
{
  V_ASSERT("C03/path_prepend_cwd.copy_stays_inside_the_buffer", n == 0 || __CPROVER_w_ok(dst, n));
  V_ASSERT("C03/path_prepend_cwd.copies_the_whole_path", src == (const void *) gp_path && n == gp_len);
  if (g_copy_calls < 100) g_copy_calls++;
  g_copy_dst = dst;
  return dst;
}

#define strlen(s) verif_strlen(s)
#define memcpy(d, s, n) verif_memcpy(d, s, n)
#include "process.posix.c"
#undef strlen
#undef memcpy

char *verif_getcwd(char *buf, size_t size)
{
  if (g.e.os_calls < 1000000) g.e.os_calls++;
  g_getcwd_calls++;
  V_ASSERT("C03/path_prepend_cwd.getcwd_size_is_inside_the_buffer", size > 0 && __CPROVER_w_ok(buf, size));
  if (!gc.cfg_nofault && nondet_bool()) {
    int e = nondet_int();
    __CPROVER_assume(e > 0 && e < 134 && e != ERANGE);
    g.e.err = e; g.e.last_fault = e;
    if (g.e.faults == 0) g.e.first_errno = e;
    g.e.faults++;
    return NULL;
  }
  if (g_cwd_true_len + 1 > size) {
    g.e.err = ERANGE; /* not a failure: the library retries with a larger buffer */
    return NULL;
  }
  /* only the bytes path_prepend_cwd looks at are modelled */
  buf[g_cwd_true_len - 1] = nondet_bool() ? '/' : 'x';
  g_cwd_last = buf[g_cwd_true_len - 1];
  buf[g_cwd_true_len] = '\0';
  g_cwd_len = g_cwd_true_len;
  return buf;
}

void harness(void)
{
  ghost_init();
  gp_len = nondet_ulong();
  __CPROVER_assume(gp_len <= ((size_t) 1 << 30));
  char *path = (malloc)(gp_len + 1);
  __CPROVER_assume(path != NULL);
  gp_path = path;
  g_cwd_true_len = nondet_ulong();
  __CPROVER_assume(g_cwd_true_len >= 1 && g_cwd_true_len < (size_t) (VERIF_GROW + 1) * 4096);
  int faults0 = g.e.faults;

  char *r = path_prepend_cwd(path);

  if (r != NULL) {
    size_t l = g_cwd_true_len;
    bool had_slash = r[l - 1] == '/';
    size_t start = had_slash ? l : l + 1;
    V_ASSERT("C03/path_prepend_cwd.current_directory_left_intact", r[l - 1] == g_cwd_last);
    V_ASSERT("C03/path_prepend_cwd.cwd_then_one_slash_then_path", had_slash || r[l] == '/');
    V_ASSERT("C03/path_prepend_cwd.nul_terminated_right_after_the_path", r[start + gp_len] == '\0');
    V_ASSERT("C03/path_prepend_cwd.path_copied_once_right_after_the_slash", g_copy_calls == 1 && g_copy_dst == (const void *) (r + start));
    V_ASSERT("C04/path_prepend_cwd.success_has_no_failed_call", g.e.faults == faults0);
    if (g_getcwd_calls > 1) V_CANARY("path_prepend.buffer_grown_reachable");
    if (gp_len > 100000) V_CANARY("path_prepend.long_path_reachable");
    (free)(r);
  } else {
    V_ASSERT("C04/path_prepend_cwd.null_means_a_call_failed_and_errno_is_set", g.e.faults > faults0 && g.e.err > 0);
    V_CANARY("path_prepend.failure_reachable");
  }
  (free)(path);
  /* leak check at exit: the buffer is released on every failure path */
}
