/* redirect_init / redirect_destroy enforced against their contracts
 * (C10, C05, C17, C11). -DRD_init / -DRD_destroy. */
#include "common.h"

void harness(void)
{
  ghost_init();
  ghost_child_any();
  gc.cfg_std_fileno[0] = nondet_bool() ? 0 : -1;
  gc.cfg_std_fileno[1] = nondet_bool() ? 1 : -1;
  gc.cfg_std_fileno[2] = nondet_bool() ? 2 : -1;
  gc.cfg_file_fd = nondet_int();
  __CPROVER_assume(gc.cfg_file_fd >= -1 && gc.cfg_file_fd < 64);
  static const char path0[] = "some/path";
  gc.cfg_path[0] = path0;

#if defined(RD_init)
  int par = nondet_int(), chi = nondet_int();
  pipe_type *parent = &par;
  handle_type *child = &chi;
  REPROC_STREAM stream = (REPROC_STREAM) nondet_int();
  reproc_redirect rd;
  rd.type = (REPROC_REDIRECT) nondet_int();
  rd.handle = nondet_int();
  rd.file = nondet_bool() ? VERIF_USER_FILE : NULL;
  rd.path = nondet_bool() ? path0 : NULL;
  reproc_redirect *redirect = &rd;
  unsigned type0 = RD_T(rd);
  bool nonblocking = nondet_bool();
  handle_type out = nondet_int();
  __CPROVER_assume(STREAM_OK(stream));
  __CPROVER_assume(IMPLIES(type0 == RT_PATH, rd.path != NULL));
  __CPROVER_assume(IMPLIES(type0 == RT_FILE, rd.file != NULL));
#include "gen/pre_redirect_init.inc"
  int verif_rv = redirect_init(parent, child, stream, redirect, nonblocking, out);
#include "gen/post_redirect_init.inc"
  if (verif_rv == 0 && type0 == RT_PIPE) V_CANARY("redirect.pipe_reachable");
  if (verif_rv == 0 && type0 == RT_PARENT && gc.cfg_std_fileno[stream] < 0) V_CANARY("redirect.parent_fallback_reachable");
  if (verif_rv == 0 && type0 == RT_PATH) V_CANARY("redirect.path_reachable");
  if (verif_rv == 0 && type0 == RT_FILE) V_CANARY("redirect.file_reachable");
  if (verif_rv < 0) V_CANARY("redirect.failure_reachable");
#elif defined(RD_destroy)
  handle_type child = nondet_int();
  REPROC_REDIRECT type = (REPROC_REDIRECT) nondet_int();
  __CPROVER_assume(IMPLIES(child != -1 && DESTROY_CLOSES(type), g.in_child || (IS_OPEN(child) && IS_LIB(child))));
#include "gen/pre_redirect_destroy.inc"
  handle_type verif_rv = redirect_destroy(child, type);
#include "gen/post_redirect_destroy.inc"
  if (DESTROY_CLOSES(type) && child != -1) V_CANARY("redirect.closes_reachable");
  if (!DESTROY_CLOSES(type)) V_CANARY("redirect.keeps_reachable");
#endif
}
