/* C03/C05: strv_concat / strv_free (bounded: vectors of at most VERIF_NVEC
 * entries, strings of at most 2 characters; allocation may fail at every
 * malloc). These are the statements the executable contracts (stubs) of
 * strv_concat/strv_free in h_process_start.c rely on. -DSTRV_concat / -DSTRV_free */
#include "common.h"
#include "strv.h"

#ifndef VERIF_NVEC
#define VERIF_NVEC 2
#endif

static char sa[VERIF_NVEC][3], sb[VERIF_NVEC][3];
static char *va[VERIF_NVEC + 1];
static const char *vb[VERIF_NVEC + 1];

static bool same_string(const char *x, const char *y)
{
  for (int i = 0; i < 3; i++) {
    if (x[i] != y[i]) return false;
    if (x[i] == '\0') return true;
  }
  return true;
}

void harness(void)
{
  ghost_init();
  size_t na = nondet_ulong(), nb = nondet_ulong();
  __CPROVER_assume(na <= VERIF_NVEC && nb <= VERIF_NVEC);
  for (size_t i = 0; i < VERIF_NVEC; i++) {
    sa[i][0] = (char) nondet_uchar(); sa[i][1] = (char) nondet_uchar(); sa[i][2] = '\0';
    sb[i][0] = (char) nondet_uchar(); sb[i][1] = (char) nondet_uchar(); sb[i][2] = '\0';
    va[i] = i < na ? sa[i] : NULL;
    vb[i] = i < nb ? sb[i] : NULL;
  }
  va[VERIF_NVEC] = NULL;
  vb[VERIF_NVEC] = NULL;
  size_t na0 = na, nb0 = nb;
  char sa0[VERIF_NVEC][3], sb0[VERIF_NVEC][3];
  memcpy(sa0, sa, sizeof(sa0));
  memcpy(sb0, sb, sizeof(sb0));
  /* either vector may also be absent */
  char *const *a = nondet_bool() ? NULL : va;
  const char *const *b = nondet_bool() ? NULL : vb;
  if (a == NULL) na = 0;
  if (b == NULL) nb = 0;

#if defined(STRV_free)
  gc.cfg_nofault = true;
#endif
  int faults0 = g.e.faults;
  char **r = strv_concat(a, b);

  V_ASSERT("C04+C05+C06/strv_concat.null_only_when_allocation_failed",
           IMPLIES(r == NULL, g.e.faults > faults0 && g.e.err == ENOMEM));
  {
    /* C12: the caller's vectors (the parent's environ among them) are read, never
       written or released - on success and on failure alike */
    bool same = true;
    for (size_t i = 0; i < VERIF_NVEC; i++) {
      if (va[i] != (i < na0 ? sa[i] : NULL) || vb[i] != (i < nb0 ? sb[i] : NULL)) same = false;
      if (sa[i][0] != sa0[i][0] || sa[i][1] != sa0[i][1] || sa[i][2] != '\0') same = false;
      if (sb[i][0] != sb0[i][0] || sb[i][1] != sb0[i][1] || sb[i][2] != '\0') same = false;
    }
    V_ASSERT("C03+C12/strv_concat.callers_vectors_untouched", same && va[VERIF_NVEC] == NULL && vb[VERIF_NVEC] == NULL);
  }
  if (r != NULL) {
    bool ok = true;
    for (size_t i = 0; i < VERIF_NVEC; i++) {
      if (i < na && (r[i] == NULL || r[i] == va[i] || !same_string(r[i], va[i]))) ok = false;
      if (i < nb && (r[na + i] == NULL || r[na + i] == vb[i] || !same_string(r[na + i], vb[i]))) ok = false;
    }
    V_ASSERT("C03/strv_concat.parent_entries_then_extra_entries_copied_byte_for_byte", ok);
    V_ASSERT("C03/strv_concat.null_terminated_right_after", r[na + nb] == NULL);
    V_CANARY("strv.concat_success_reachable");
    if (na == VERIF_NVEC && nb == VERIF_NVEC) V_CANARY("strv.full_vectors_reachable");
    char **z = strv_free(r);
    V_ASSERT("C05/strv_free.returns_null", z == NULL);
  } else {
    V_CANARY("strv.concat_failure_reachable");
  }
  /* the memory-leak check at exit: everything strv_concat allocated was
     released by strv_free, or by strv_concat itself when it failed half-way */
}
