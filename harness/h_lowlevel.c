/* pipe.posix.c / handle.posix.c functions, each enforced against its contract
 * with every OS call allowed to fail (C05, C11, C17, C02). -DLL_<name>. */
#include "common.h"

void harness(void)
{
  ghost_init();
  ghost_child_any();

#if defined(LL_handle_destroy)
  int handle = nondet_int();
  g.in_child = nondet_bool();
  __CPROVER_assume(handle == -1 || g.in_child || (IS_OPEN(handle) && IS_LIB(handle)));
#include "gen/pre_handle_destroy.inc"
  int verif_rv = handle_destroy(handle);
#include "gen/post_handle_destroy.inc"
  if (handle != -1) V_CANARY("ll.closed_reachable"); else V_CANARY("ll.noop_reachable");
#elif defined(LL_pipe_destroy)
  int pipe = nondet_int();
  g.in_child = nondet_bool();
  __CPROVER_assume(pipe == -1 || g.in_child || (IS_OPEN(pipe) && IS_LIB(pipe)));
#include "gen/pre_pipe_destroy.inc"
  int verif_rv = pipe_destroy(pipe);
#include "gen/post_pipe_destroy.inc"
  if (pipe != -1) V_CANARY("ll.closed_reachable"); else V_CANARY("ll.noop_reachable");
#elif defined(LL_handle_cloexec)
  int handle = nondet_int();
  bool enable = nondet_bool();
#include "gen/pre_handle_cloexec.inc"
  int verif_rv = handle_cloexec(handle, enable);
#include "gen/post_handle_cloexec.inc"
  if (verif_rv == 0) V_CANARY("ll.success_reachable"); else V_CANARY("ll.failure_reachable");
#elif defined(LL_pipe_nonblocking)
  int pipe = nondet_int();
  bool enable = nondet_bool();
#include "gen/pre_pipe_nonblocking.inc"
  int verif_rv = pipe_nonblocking(pipe, enable);
#include "gen/post_pipe_nonblocking.inc"
  if (verif_rv == 0) V_CANARY("ll.success_reachable"); else V_CANARY("ll.failure_reachable");
#elif defined(LL_pipe_init)
  int rd = nondet_int(), wr = nondet_int();
  int *read = &rd, *write = &wr;
#include "gen/pre_pipe_init.inc"
  int verif_rv = pipe_init(read, write);
#include "gen/post_pipe_init.inc"
  if (verif_rv == 0) V_CANARY("ll.success_reachable"); else V_CANARY("ll.failure_reachable");
  if (verif_rv == 0 && rd <= 2) V_CANARY("ll.lands_on_std_descriptor_reachable");
#elif defined(LL_pipe_read)
  int pipe = nondet_int();
  size_t size = nondet_ulong();
  /* any size, 0 included (C02: "every read/write buffer size including 0") */
  __CPROVER_assume(size <= VERIF_MAX_BUF && IS_OPEN(pipe));
  uint8_t *buffer = (malloc)(size);
  __CPROVER_assume(buffer != NULL);
#include "gen/pre_pipe_read.inc"
  int verif_rv = pipe_read(pipe, buffer, size);
#include "gen/post_pipe_read.inc"
  if (verif_rv > 0) V_CANARY("ll.data_reachable");
  if (verif_rv == -EPIPE) V_CANARY("ll.eof_reachable");
  if (verif_rv < 0 && verif_rv != -EPIPE) V_CANARY("ll.failure_reachable");
  (free)(buffer);
#elif defined(LL_pipe_write)
  int pipe = nondet_int();
  size_t size = nondet_ulong();
  __CPROVER_assume(size <= VERIF_MAX_BUF && IS_OPEN(pipe));
  uint8_t *buffer = (malloc)(size);
  __CPROVER_assume(buffer != NULL);
#include "gen/pre_pipe_write.inc"
  int verif_rv = pipe_write(pipe, buffer, size);
#include "gen/post_pipe_write.inc"
  if (verif_rv > 0) V_CANARY("ll.data_reachable");
  if (verif_rv < 0) V_CANARY("ll.failure_reachable");
  (free)(buffer);
#else
#error "select a function"
#endif
}
