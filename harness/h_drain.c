/* C16: reproc_drain, unbounded in the number of chunks.
 *  - The for(;;) loop is closed by induction over a loop invariant, written out
 *    in C through /repo's REPROC_VERIF_LOOP(drain) hook (verif_drain_head below):
 *    base case, havoc of everything the loop may change, assumption of the
 *    invariant, one arbitrary iteration, step case. Code after the loop runs from
 *    that arbitrary state, so the postconditions hold for every iteration count.
 *  - reproc_poll and reproc_read are replaced by their contracts "by hand": the
 *    stubs below havoc the contract's assigns clause and assume its ensures
 *    clauses (generated from contracts/static_reproc.h into gen/assume_*.inc).
 *    The real functions are enforced against those contracts in the harnesses
 *    reproc_poll_N and reproc_read.
 *  - The two sinks are harness functions feeding a ghost monitor of the documented
 *    sink protocol (drain.h :24-41); a sink may fail at any call. */
#define reproc_poll real_reproc_poll
#define reproc_read real_reproc_read
#include "reproc.c"
#undef reproc_poll
#undef reproc_read
#define VERIF_NSRC 1
#include "static_reproc.h"
#include "common_reproc.h"

static struct {
  int calls;            /* sink calls so far (saturating)                      */
  unsigned last_rd_calls; /* value of g.rl.rd_calls when the last chunk was delivered */
  bool stopped;         /* a sink returned non-zero                            */
  int stop_val;
  bool closed_out, closed_err; /* the size-zero call for that stream happened  */
  int fd_out, fd_err;   /* the handle's output pipes when drain was called     */
  void *ctx_out, *ctx_err;
} verif_mon;

struct ghost nondet_ghost(void);
struct reproc_t nondet_reproc(void);

#define VERIF_DRAIN_INV                                                        \
  (g.now > ((int64_t) 1 << 32) &&                                              \
   g.e.err >= 0 && g.e.err < 134 && g.e.first_errno >= 0 && g.e.first_errno < 134 && \
   g.e.last_fault >= 0 && g.e.last_fault < 134 && g.e.faults >= 0 && g.e.faults <= 1000 && \
   g.e.os_calls >= 0 &&                                                        \
   verif_mon.calls >= 2 && verif_mon.calls <= 1000 && !verif_mon.stopped &&    \
   g.rl.rd_calls == verif_mon.last_rd_calls &&                                 \
   INV(process) && process->status != ST_IN_CHILD &&                          \
   (process->pipe.out == verif_mon.fd_out || process->pipe.out == -1) &&       \
   (process->pipe.err == verif_mon.fd_err || process->pipe.err == -1) &&       \
   (!verif_mon.closed_out || process->pipe.out == -1) &&                       \
   (!verif_mon.closed_err || process->pipe.err == -1))

static bool verif_head_seen;

static bool verif_drain_head(int *r, uint8_t *buffer, reproc_t *process)
{
  if (!verif_head_seen) {
    verif_head_seen = true;
    V_ASSERT("C16/drain.loop_invariant_holds_on_entry", VERIF_DRAIN_INV);
    /* an arbitrary later iteration: everything the loop may change is arbitrary */
    *r = nondet_int();
    __CPROVER_havoc_slice(buffer, 4096);
    *process = nondet_reproc();
    g = nondet_ghost();
    verif_mon.calls = nondet_int();
    verif_mon.last_rd_calls = nondet_uint();
    verif_mon.stopped = nondet_bool();
    verif_mon.stop_val = nondet_int();
    verif_mon.closed_out = nondet_bool();
    verif_mon.closed_err = nondet_bool();
    __CPROVER_assume(VERIF_DRAIN_INV);
    return true;
  }
  V_ASSERT("C16/drain.loop_invariant_preserved_by_an_arbitrary_iteration", VERIF_DRAIN_INV);
  __CPROVER_assume(0); /* induction: one iteration is all that has to be looked at */
  return false;
}

/* ---- reproc_poll / reproc_read replaced by their contracts ---------------------- */

int reproc_poll(reproc_event_source *sources, size_t num_sources, int timeout)
{
  /* requires */
  V_ASSERT("C16/drain.polls_one_source_forever", sources != NULL && num_sources == 1 && timeout == -1);
#include "gen/pre_reproc_poll.inc"
  /* assigns: the sources' events, the error ghost, the poll ghost */
  sources[0].events = nondet_int();
  {
    struct ghost h = nondet_ghost();
    g.e = h.e;
    g.pl = h.pl;
    g.now = h.now;
    g.may_block = h.may_block;
    g.plan_pos = h.plan_pos;
  }
  int verif_rv = nondet_int();
  /* ensures */
#include "gen/assume_reproc_poll.inc"
  return verif_rv;
}

int reproc_read(reproc_t *process, REPROC_STREAM stream, uint8_t *buffer, size_t size)
{
  /* requires */
  V_ASSERT("C14+C16/drain.reads_with_a_valid_handle", process == NULL || INV(process));
#include "gen/pre_reproc_read.inc"
  /* assigns: the handle, the ghost, the buffer */
  if (process != NULL) *process = nondet_reproc();
  g = nondet_ghost();
  if (buffer != NULL && size > 0) __CPROVER_havoc_slice(buffer, size);
  int verif_rv = nondet_int();
  /* ensures */
#include "gen/assume_reproc_read.inc"
  return verif_rv;
}

#include "drain.c"

static int mon_call(int which, REPROC_STREAM stream, const uint8_t *buffer, size_t size, void *context)
{
  V_ASSERT("C16/drain.no_sink_call_after_a_sink_stopped_it", !verif_mon.stopped);
  if (verif_mon.calls == 0) {
    V_ASSERT("C16/drain.first_call_is_out_sink_empty_with_input_tag",
             which == 0 && stream == REPROC_STREAM_IN && size == 0 && context == verif_mon.ctx_out && buffer != NULL);
  } else if (verif_mon.calls == 1) {
    V_ASSERT("C16/drain.second_call_is_err_sink_empty_with_input_tag",
             which == 1 && stream == REPROC_STREAM_IN && size == 0 && context == verif_mon.ctx_err && buffer != NULL);
  } else {
    bool from_out = g.rl.rd_fd == verif_mon.fd_out;
    V_ASSERT("C16/drain.chunk_follows_exactly_one_undelivered_read",
             g.rl.rd_calls == verif_mon.last_rd_calls + 1 && (g.rl.rd_fd == verif_mon.fd_out || g.rl.rd_fd == verif_mon.fd_err) && g.rl.rd_fd != -1);
    V_ASSERT("C16/drain.chunk_goes_to_the_sink_of_its_stream_with_its_tag",
             which == (from_out ? 0 : 1) && stream == (from_out ? REPROC_STREAM_OUT : REPROC_STREAM_ERR) &&
                 context == (from_out ? verif_mon.ctx_out : verif_mon.ctx_err));
    V_ASSERT("C16/drain.chunk_is_what_was_read",
             buffer == (const uint8_t *) g.rl.rd_buf && g.rl.rd_ret >= 0 && size == (size_t) g.rl.rd_ret);
    if (size == 0) {
      V_ASSERT("C16/drain.closed_stream_reported_once_with_size_zero",
               !(from_out ? verif_mon.closed_out : verif_mon.closed_err));
      if (from_out) verif_mon.closed_out = true; else verif_mon.closed_err = true;
    }
    verif_mon.last_rd_calls = g.rl.rd_calls;
  }
  if (verif_mon.calls < 1000) verif_mon.calls++;
  int rv = nondet_int(); /* a sink may fail at any call */
  if (rv != 0) {
    verif_mon.stopped = true;
    verif_mon.stop_val = rv;
  }
  return rv;
}

static int sink_a(REPROC_STREAM stream, const uint8_t *buffer, size_t size, void *context)
{
  return mon_call(0, stream, buffer, size, context);
}

static int sink_b(REPROC_STREAM stream, const uint8_t *buffer, size_t size, void *context)
{
  return mon_call(1, stream, buffer, size, context);
}

void harness(void)
{
  ghost_init();
  ghost_child_any();
  reproc_t *process = any_process(true);
  static int ca, cb;
  reproc_sink out = { nondet_bool() ? NULL : sink_a, &ca };
  reproc_sink err = { nondet_bool() ? NULL : sink_b, &cb };
  verif_head_seen = false;
  verif_mon.calls = 0;
  verif_mon.stopped = false;
  verif_mon.closed_out = verif_mon.closed_err = false;
  verif_mon.last_rd_calls = g.rl.rd_calls;
  verif_mon.ctx_out = &ca;
  verif_mon.ctx_err = &cb;
  if (process != NULL) {
    __CPROVER_assume(process->status != ST_IN_CHILD);
    verif_mon.fd_out = process->pipe.out;
    verif_mon.fd_err = process->pipe.err;
  }
  bool misuse = process == NULL || out.function == NULL || err.function == NULL;
  int os0 = g.e.os_calls;

  int verif_rv = reproc_drain(process, out, err);

  V_ASSERT("C14+C16/drain.misuse_is_einval", IMPLIES(misuse, verif_rv == -EINVAL && verif_mon.calls == 0 && g.e.os_calls == os0));
  if (!misuse) {
    V_ASSERT("C16/drain.non_zero_sink_result_is_returned_at_once", IMPLIES(verif_mon.stopped, verif_rv == verif_mon.stop_val));
    V_ASSERT("C16/drain.zero_only_when_both_output_streams_are_closed",
             IMPLIES(verif_rv == 0, !verif_mon.stopped && verif_mon.calls >= 2 && process->pipe.out == -1 && process->pipe.err == -1));
    V_ASSERT("C16/drain.otherwise_a_negative_error", IMPLIES(verif_rv != 0 && !verif_mon.stopped, verif_rv < 0));
    V_ASSERT("C16/drain.every_chunk_read_was_delivered",
             IMPLIES(verif_mon.calls >= 2,
                     g.rl.rd_calls == verif_mon.last_rd_calls || (g.rl.rd_calls == verif_mon.last_rd_calls + 1 && g.rl.rd_ret < 0 && !verif_mon.stopped)));
    if (verif_mon.calls >= 2) V_ASSERT("C14/drain.invariant_kept", INV(process));
    if (verif_rv == 0) V_CANARY("drain.both_closed_reachable");
    if (verif_rv == -ETIMEDOUT) V_CANARY("drain.timeout_reachable");
    if (verif_mon.stopped && verif_mon.calls > 3) V_CANARY("drain.sink_stops_after_chunk_reachable");
    if (verif_mon.closed_out && verif_mon.closed_err) V_CANARY("drain.both_streams_reported_closed_reachable");
    if (verif_head_seen) V_CANARY("drain.loop_reachable");
  }
  (free)(process);
}
