/* process_start enforced against its contract, one side of fork at a time
 * (-DSIDE_PARENT / -DSIDE_CHILD); process_fork, strv_concat, strv_free and
 * path_prepend_cwd replaced by their contracts; pipe_init, handle_cloexec,
 * path_is_relative, strdup (by provenance) inlined. The child handles are
 * symbolic, possibly equal to each other and to 0, 1, 2. */
#include "process.posix.c"
#include "static_process.h"
#include "common.h"

/* Executable contracts of strv_concat / strv_free (strv.c is not linked into this
   harness): what process_start may rely on. The real functions are enforced
   against the corresponding statements in their own harnesses (strv_concat,
   strv_free); the contents of the vector are abstracted here (process_start
   never inspects them). */
char **strv_concat(char *const *a, const char *const *b)
{
  if (!gc.cfg_nofault && nondet_bool()) {
    g.e.err = ENOMEM;
    if (g.e.faults == 0) g.e.first_errno = ENOMEM;
    if (g.e.faults < 1000) g.e.faults++;
    return NULL;
  }
  char **r = (calloc)(1, sizeof(char *));
  __CPROVER_assume(r != NULL);
  g.env_ptr = r;
  g.env_a = a;
  g.env_b = b;
  return r;
}

char **strv_free(char **l)
{
  if (l != NULL) {
    g.last_freed_vec = l;
  }
  (free)(l);
  return NULL;
}

/* independent statement of "relative path" (reproc.h :343-345, property C03):
   not absolute, and names a directory component */
static bool spec_relative(const char *s)
{
  if (s[0] == '\0' || s[0] == '/') return false;
  return s[1] == '/' || (s[1] != '\0' && s[2] == '/');
}

void harness(void)
{
  ghost_init();
  g.child_pid = 0;
  g.nsig = nondet_int();
  g.kill_calls = nondet_int();
  __CPROVER_assume(g.nsig >= 0 && g.nsig < 3 && g.kill_calls >= 0 && g.kill_calls < 50);
#if defined(SIDE_CHILD)
  gc.cfg_child_side = true;
#endif
  /* no descriptor at or above the soft limit is open (the kernel hands out none) */
  gc.cfg_rlim_cur = nondet_ulong();
  __CPROVER_assume(gc.cfg_rlim_cur >= 1 && gc.cfg_rlim_cur <= 1048577UL && (g.fds.open & ~(gc.cfg_rlim_cur >= 32 ? 0xffffffffu : ((1u << gc.cfg_rlim_cur) - 1u))) == 0);

  /* argv: NULL (fork mode) or { a0, NULL } with a0 any 3-character string */
  static char a0[4];
  a0[0] = (char) nondet_uchar(); a0[1] = (char) nondet_uchar(); a0[2] = (char) nondet_uchar(); a0[3] = '\0';
  const char *arr[2];
  arr[0] = a0; arr[1] = NULL;
  const char *const *argv = nondet_bool() ? NULL : arr;

  static const char wd[] = "wd";
  static const char *const extra[1] = { NULL };
  static char *parent_env[1] = { NULL };
  environ = parent_env;

  struct process_options options;
  options.env.behavior = nondet_bool() ? REPROC_ENV_EMPTY : REPROC_ENV_EXTEND;
  options.env.extra = nondet_bool() ? extra : NULL;
  options.working_directory = nondet_bool() ? wd : NULL;
  options.handle.in = nondet_int();
  options.handle.out = nondet_int();
  options.handle.err = nondet_int();
  options.handle.exit = nondet_int();
  __CPROVER_assume(IS_OPEN(options.handle.in) && IS_OPEN(options.handle.out) &&
                   IS_OPEN(options.handle.err) && IS_OPEN(options.handle.exit));
  /* the exit handle is a pipe end the library just created: not one of the
     stream handles */
  __CPROVER_assume(options.handle.exit != options.handle.in && options.handle.exit != options.handle.out &&
                   options.handle.exit != options.handle.err);

  /* the launch request, as the properties state it */
  gc.cfg_wd = options.working_directory;
  gc.want_obj[0] = g.fds.obj[options.handle.in];
  gc.want_obj[1] = g.fds.obj[options.handle.out];
  gc.want_obj[2] = g.fds.obj[options.handle.err];
  gc.want_exit_fd = options.handle.exit;
  gc.want_exit_obj = g.fds.obj[options.handle.exit];
  g.exit_moved_to = -1;
  gc.want_argv = (char *const *) argv;
  gc.want_argv0 = argv ? argv[0] : NULL;
  gc.want_prepend = argv != NULL && options.working_directory != NULL && spec_relative(a0);
  gc.want_env_a = options.env.behavior == REPROC_ENV_EMPTY ? NULL : parent_env;
  gc.want_env_b = options.env.extra;
  gc.want_cwd_id = options.working_directory != NULL ? 1 : 0;

  pid_t pid = -1;
  pid_t *process = &pid;
#include "gen/pre_process_start.inc"
  int verif_rv = process_start(process, argv, options);
#include "gen/post_process_start.inc"
#if defined(SIDE_CHILD)
  {
    /* C11, fork mode: whatever is open beyond the standard streams refers to an
       object one of the four handles referred to (the handles themselves, or the
       duplicates the library moved above the standard streams) */
    bool only_handles = true;
    for (int fd = 3; fd < VERIF_NFD; fd++) {
      if ((g.fds.open & BIT(fd)) != 0 && g.fds.obj[fd] != gc.want_obj[0] && g.fds.obj[fd] != gc.want_obj[1] &&
          g.fds.obj[fd] != gc.want_obj[2] && g.fds.obj[fd] != gc.want_exit_obj) {
        only_handles = false;
      }
    }
    V_ASSERT("C11/process_start.fork_mode_child_keeps_only_its_handles", !g.in_child || only_handles);
  }
  V_CANARY("process_start.fork_mode_child_returns_reachable");
#else
  if (verif_rv == 1) V_CANARY("process_start.success_reachable");
  if (verif_rv < 0 && g.child_pid > 0) V_CANARY("process_start.child_failed_reachable");
  if (verif_rv < 0 && g.child_pid == 0) V_CANARY("process_start.parent_failure_reachable");
#endif
}
