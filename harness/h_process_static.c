/* small static functions of process.posix.c (-DPS_<name>) */
#include "process.posix.c"
#include "static_process.h"
#include "common.h"

void harness(void)
{
  ghost_init();
#if defined(PS_fd_in_set)
  int set[6];
  set[0] = nondet_int(); set[1] = nondet_int(); set[2] = nondet_int();
  set[3] = nondet_int(); set[4] = nondet_int(); set[5] = nondet_int();
  const int *fd_set = set;
  size_t size = 6;
  int fd = nondet_int();
#include "gen/pre_fd_in_set.inc"
  bool verif_rv = fd_in_set(fd, fd_set, size);
#include "gen/post_fd_in_set.inc"
  if (verif_rv) V_CANARY("fd_in_set.member_reachable"); else V_CANARY("fd_in_set.not_member_reachable");
#elif defined(PS_get_max_fd)
  gc.cfg_rlim_cur = nondet_ulong();
  __CPROVER_assume(gc.cfg_rlim_cur >= 1); /* a soft limit of 0 descriptors is not considered */
#include "gen/pre_get_max_fd.inc"
  int verif_rv = get_max_fd();
#include "gen/post_get_max_fd.inc"
  if (verif_rv >= 0) V_CANARY("get_max_fd.success_reachable"); else V_CANARY("get_max_fd.failure_reachable");
#endif
}
