/* Stub <windows.h> for compiling the real reproc/src/process.windows.c with
 * goto-cc on Linux (C18): types, constants and prototypes only, no bodies.
 * The Win32 functions are external contracts; none of them is reached from the
 * functions verified here (argument quoting and environment block building). */
#ifndef VERIF_STUB_WINDOWS_H
#define VERIF_STUB_WINDOWS_H

#include <limits.h>
#include <stdbool.h>
#include <stddef.h>
#include <stdint.h>
#include <string.h>
#include <wchar.h>

typedef void *HANDLE;
typedef unsigned int DWORD;
typedef unsigned short WORD;
typedef int BOOL;
typedef size_t SIZE_T;
typedef void *LPVOID;
typedef unsigned char *LPBYTE;
typedef wchar_t *LPWSTR;
typedef const wchar_t *LPCWSTR;
typedef void *LPPROC_THREAD_ATTRIBUTE_LIST;
typedef uintptr_t DWORD_PTR;

#define INVALID_HANDLE_VALUE ((HANDLE) (intptr_t) -1)
#define INFINITE 0xFFFFFFFFu
#define WAIT_FAILED 0xFFFFFFFFu
#define CREATE_NEW_PROCESS_GROUP 0x00000200u
#define CREATE_UNICODE_ENVIRONMENT 0x00000400u
#define EXTENDED_STARTUPINFO_PRESENT 0x00080000u
#define HANDLE_FLAG_INHERIT 0x00000001u
#define ERROR_NOT_ENOUGH_MEMORY 8
#define ERROR_INSUFFICIENT_BUFFER 122
#define ERROR_CALL_NOT_IMPLEMENTED 120
#define PROC_THREAD_ATTRIBUTE_HANDLE_LIST 0x00020002u
#define STARTF_USESTDHANDLES 0x00000100u
#define STARTF_USESHOWWINDOW 0x00000001u
#define SW_HIDE 0
#define SEM_NOGPFAULTERRORBOX 0x0002u
#define CTRL_BREAK_EVENT 1

typedef struct {
  DWORD nLength;
  LPVOID lpSecurityDescriptor;
  BOOL bInheritHandle;
} SECURITY_ATTRIBUTES;

typedef struct {
  DWORD cb;
  LPWSTR lpReserved, lpDesktop, lpTitle;
  DWORD dwX, dwY, dwXSize, dwYSize, dwXCountChars, dwYCountChars, dwFillAttribute, dwFlags;
  WORD wShowWindow, cbReserved2;
  LPBYTE lpReserved2;
  HANDLE hStdInput, hStdOutput, hStdError;
} STARTUPINFOW, *LPSTARTUPINFOW;

typedef struct {
  STARTUPINFOW StartupInfo;
  LPPROC_THREAD_ATTRIBUTE_LIST lpAttributeList;
} STARTUPINFOEXW;

typedef struct {
  HANDLE hProcess, hThread;
  DWORD dwProcessId, dwThreadId;
} PROCESS_INFORMATION;

void SetLastError(DWORD e);
DWORD GetLastError(void);
BOOL SetHandleInformation(HANDLE h, DWORD mask, DWORD flags);
BOOL InitializeProcThreadAttributeList(LPPROC_THREAD_ATTRIBUTE_LIST l, DWORD n, DWORD f, SIZE_T *size);
BOOL UpdateProcThreadAttribute(LPPROC_THREAD_ATTRIBUTE_LIST l, DWORD f, DWORD_PTR a, LPVOID v, SIZE_T s, LPVOID p, SIZE_T *r);
void DeleteProcThreadAttributeList(LPPROC_THREAD_ATTRIBUTE_LIST l);
wchar_t *GetEnvironmentStringsW(void);
BOOL FreeEnvironmentStringsW(wchar_t *e);
DWORD SetErrorMode(DWORD m);
BOOL CreateProcessW(LPCWSTR app, LPWSTR cmd, SECURITY_ATTRIBUTES *pa, SECURITY_ATTRIBUTES *ta, BOOL inherit,
                    DWORD flags, LPVOID env, LPCWSTR cwd, LPSTARTUPINFOW si, PROCESS_INFORMATION *pi);
DWORD GetProcessId(HANDLE h);
DWORD WaitForSingleObject(HANDLE h, DWORD ms);
BOOL GetExitCodeProcess(HANDLE h, DWORD *code);
BOOL GenerateConsoleCtrlEvent(DWORD ev, DWORD group);
BOOL TerminateProcess(HANDLE h, DWORD code);

#endif
