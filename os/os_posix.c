/* The OS / libc contract layer (DESIGN.md §2.3) — ASSUMED, never proved.
 *
 * One body per external function reproc calls. Each body is that function's
 * contract in executable form:
 *   - V_ASSERT(label, c): the precondition the *library* must meet
 *     (an obligation of whichever /repo function reaches the call);
 *   - nondeterministic choice + __CPROVER_assume: what the *kernel* may answer;
 *   - updates of the ghost state `g`.
 * Every function may fail with any errno at every call unless gc.cfg_nofault;
 * one proof therefore covers every subset of failing calls.
 *
 * The same file is compiled natively for replay (VERIF_NATIVE): nondet_*()
 * then pops the next value of the script extracted from CBMC's trace. */
#include "rename.h"

#undef malloc
#undef calloc
#undef realloc

struct ghost g;
struct ghost_cfg gc;
FILE verif_files[4];
char **environ;

/* ------------------------------------------------------------------------ */

static void fault(int e)
{
  g.e.err = e;
  g.e.last_fault = e;
  if (g.e.faults == 0) {
    g.e.first_errno = e;
  }
  if (g.e.faults < 1000) {
    g.e.faults++;
  }
}

/* nondeterministically decide that this call fails; returns the errno or 0 */
static int maybe_fault(void)
{
  if (gc.cfg_nofault) {
    return 0;
  }
  if (!nondet_bool()) {
    return 0;
  }
  int e = nondet_int();
  /* no call reproc makes can fail with ETIMEDOUT (poll reports a timeout as 0) */
  __CPROVER_assume(e > 0 && e < 134 && e != ETIMEDOUT);
  return e;
}

static void os_call(void)
{
  if (g.e.os_calls < 1000000) {
    g.e.os_calls++;
  }
}

bool ghost_wf(void)
{
  return (g.fds.lib & ~g.fds.open) == 0 && (g.fds.cloexec & ~g.fds.open) == 0 &&
         (g.fds.nonblock & ~g.fds.open) == 0 && (g.fds.rd & ~g.fds.open) == 0 &&
         (g.fds.wr & ~g.fds.open) == 0 && g.now > ((int64_t) 1 << 32) &&
         g.now < ((int64_t) 1 << 52) && g.e.faults == 0 && g.e.os_calls == 0;
}

/* Nondeterministic, well-formed initial state. Fields not mentioned keep the
   value the harness gave them (or 0). */
void ghost_init(void)
{
  /* DFCC makes every static object nondeterministic: start from zero */
  g = (struct ghost){ 0 };
  gc = (struct ghost_cfg){ 0 };
  gc.plan_invalid_at = -1;
  g.fds.open = nondet_uint();
  g.fds.lib = nondet_uint() & g.fds.open;
  g.fds.cloexec = nondet_uint() & g.fds.open;
  g.fds.nonblock = nondet_uint() & g.fds.open;
  g.fds.rd = nondet_uint() & g.fds.open;
  g.fds.wr = nondet_uint() & g.fds.open;
  /* arbitrary object identities behind the descriptors (4 x 8 bytes) */
  {
    unsigned long w[4];
    w[0] = nondet_ulong();
    w[1] = nondet_ulong();
    w[2] = nondet_ulong();
    w[3] = nondet_ulong();
    /* OS law: a pipe created from now on is a new object, distinct from everything
       already open - no initial identity lies in the range the first 16 fresh
       pipes take (bytes 32..63; word-level "no byte is zero" test, loop-free) */
#define VERIF_HASZERO(v) ((((v) - 0x0101010101010101ul) & ~(v) & 0x8080808080808080ul) != 0)
    __CPROVER_assume(!VERIF_HASZERO((w[0] & 0xE0E0E0E0E0E0E0E0ul) ^ 0x2020202020202020ul) &&
                     !VERIF_HASZERO((w[1] & 0xE0E0E0E0E0E0E0E0ul) ^ 0x2020202020202020ul) &&
                     !VERIF_HASZERO((w[2] & 0xE0E0E0E0E0E0E0E0ul) ^ 0x2020202020202020ul) &&
                     !VERIF_HASZERO((w[3] & 0xE0E0E0E0E0E0E0E0ul) ^ 0x2020202020202020ul));
#undef VERIF_HASZERO
    memcpy(g.fds.obj, w, sizeof(g.fds.obj));
  }
  g.now = nondet_long();
  __CPROVER_assume(g.now > ((int64_t) 1 << 32) && g.now < ((int64_t) 1 << 52));
  g.e.err = nondet_int(); /* errno: stale value of some earlier call */
  __CPROVER_assume(g.e.err >= 0 && g.e.err < 134);
  g.sigmask = nondet_ulong();
  g.disp_default = nondet_ulong();
  gc.cfg_nofault = nondet_bool();
  g.e.faults = 0;
  g.e.os_calls = 0;
  g.in_fd = -1;
  gc.want_exit_fd = -1;
}

/* ------------------------------ descriptors ------------------------------- */

static void fd_release(int fd)
{
  uint32_t m = ~BIT(fd);
  g.fds.open &= m;
  g.fds.lib &= m;
  g.fds.cloexec &= m;
  g.fds.nonblock &= m;
  g.fds.rd &= m;
  g.fds.wr &= m;
  g.fds.obj[fd] = OBJ_NONE;
}

/* an arbitrary currently closed descriptor (a superset of "lowest free", so
   landing on 0/1/2 is covered); -1 if the choice is not free */
static int fd_fresh(void)
{
  int fd = nondet_int();
  if (!FD_OK(fd) || (g.fds.open & BIT(fd)) != 0) {
    return -1;
  }
  if (gc.cfg_no_low_fresh && fd <= 2) {
    return -1;
  }
  return fd;
}

int verif_pipe(int fds[2])
{
  os_call();
  int e = maybe_fault();
  if (e) {
    fault(e);
    return -1;
  }
  int a = fd_fresh();
  int b = fd_fresh();
  if (a < 0 || b < 0 || a == b || g.fds.next_pipe >= 100) {
    fault(EMFILE); /* descriptor table full */
    return -1;
  }
  g.fds.open |= BIT(a) | BIT(b);
  g.fds.lib |= BIT(a) | BIT(b);
  g.fds.cloexec &= ~(BIT(a) | BIT(b));
  g.fds.nonblock &= ~(BIT(a) | BIT(b));
  g.fds.rd = (g.fds.rd | BIT(a)) & ~BIT(b);
  g.fds.wr = (g.fds.wr | BIT(b)) & ~BIT(a);
  g.fds.obj[a] = (uint8_t) (OBJ_PIPE_BASE + 2 * g.fds.next_pipe);
  g.fds.obj[b] = (uint8_t) (OBJ_PIPE_BASE + 2 * g.fds.next_pipe + 1);
  g.fds.next_pipe++;
  fds[0] = a;
  fds[1] = b;
  return 0;
}

int verif_close(int fd)
{
  os_call();
  if (!g.in_child) {
    /* the single assertion that is "no foreign close, no double close" */
    V_ASSERT("C05+C10/os.close.open_and_library_owned", IS_OPEN(fd) && IS_LIB(fd));
  }
  if (gc.plan_on && gc.cfg_release_after_stop) {
    /* destroy: nothing is released before the stop sequence has run as far as it
       can (child reaped, an action failed, or every step taken) */
    V_ASSERT("C15/os.close.only_after_stop_sequence",
             g.child_reaped || g.e.faults > 0 || g.plan_pos >= gc.plan_n ||
                 (gc.plan_invalid_at >= 0 && g.plan_pos == gc.plan_invalid_at));
  }
  if (!IS_OPEN(fd)) {
    g.e.err = EBADF;
    return -1;
  }
  fd_release(fd); /* Linux releases the descriptor even if an error is reported */
  /* close may report an error (EINTR, EIO); the library ignores it by design, so
     it is not counted among the failures start has to report: only errno moves */
  int e = maybe_fault();
  if (e) {
    g.e.err = e;
    return -1;
  }
  return 0;
}

int verif_fcntl(int fd, int cmd, long arg)
{
  os_call();
  if (!IS_OPEN(fd)) {
    g.e.err = EBADF;
    return -1;
  }
  if (cmd == F_GETFD) {
    /* cannot fail on an open descriptor */
    return (g.fds.cloexec & BIT(fd)) ? FD_CLOEXEC : 0;
  }
  int e = maybe_fault();
  if (e) {
    fault(e);
    return -1;
  }
  if (cmd == F_SETFD) {
    g.fds.cloexec = (arg & FD_CLOEXEC) ? (g.fds.cloexec | BIT(fd)) : (g.fds.cloexec & ~BIT(fd));
    return 0;
  }
  if (cmd == F_GETFL) {
    int acc = (g.fds.rd & BIT(fd)) ? ((g.fds.wr & BIT(fd)) ? O_RDWR : O_RDONLY) : O_WRONLY;
    return acc | ((g.fds.nonblock & BIT(fd)) ? O_NONBLOCK : 0);
  }
  if (cmd == F_SETFL) {
    g.fds.nonblock = (arg & O_NONBLOCK) ? (g.fds.nonblock | BIT(fd)) : (g.fds.nonblock & ~BIT(fd));
    return 0;
  }
  if (cmd == F_DUPFD_CLOEXEC || cmd == F_DUPFD) {
    /* an arbitrary free descriptor numbered >= arg referring to the same object */
    int nfd = fd_fresh();
    if (nfd < 0 || nfd < arg) {
      fault(EMFILE);
      return -1;
    }
    g.fds.open |= BIT(nfd);
    g.fds.lib |= BIT(nfd);
    g.fds.cloexec = (cmd == F_DUPFD_CLOEXEC) ? (g.fds.cloexec | BIT(nfd)) : (g.fds.cloexec & ~BIT(nfd));
    g.fds.nonblock = (g.fds.nonblock & BIT(fd)) ? (g.fds.nonblock | BIT(nfd)) : (g.fds.nonblock & ~BIT(nfd));
    g.fds.rd = (g.fds.rd & BIT(fd)) ? (g.fds.rd | BIT(nfd)) : (g.fds.rd & ~BIT(nfd));
    g.fds.wr = (g.fds.wr & BIT(fd)) ? (g.fds.wr | BIT(nfd)) : (g.fds.wr & ~BIT(nfd));
    g.fds.obj[nfd] = g.fds.obj[fd];
    if (fd == gc.want_exit_fd) {
      g.exit_moved_to = nfd; /* the launch contract follows the exit handle */
    }
    return nfd;
  }
  V_ASSERT("C14/os.fcntl.known_command", 0);
  g.e.err = EINVAL;
  return -1;
}

static bool is_dev_null(const char *p)
{
  return p[0] == '/' && p[1] == 'd' && p[2] == 'e' && p[3] == 'v' &&
         p[4] == '/' && p[5] == 'n' && p[6] == 'u' && p[7] == 'l' &&
         p[8] == 'l' && p[9] == '\0';
}

int verif_open(const char *path, int flags, long mode)
{
  (void) mode;
  os_call();
  V_ASSERT("C10/os.open.path_not_null", path != NULL);
  int e = maybe_fault();
  if (e) {
    fault(e);
    return -1;
  }
  int fd = fd_fresh();
  if (fd < 0) {
    fault(EMFILE);
    return -1;
  }
  uint8_t obj = OBJ_PATH_OTHER;
  if (path == gc.cfg_path[0]) {
    obj = OBJ_PATH_BASE + 0;
  } else if (path == gc.cfg_path[1]) {
    obj = OBJ_PATH_BASE + 1;
  } else if (path == gc.cfg_path[2]) {
    obj = OBJ_PATH_BASE + 2;
  } else if (path == gc.cfg_path[3]) {
    obj = OBJ_PATH_BASE + 3;
  } else if (is_dev_null(path)) {
    obj = OBJ_DEVNULL;
  }
  g.fds.open |= BIT(fd);
  g.fds.lib |= BIT(fd);
  g.fds.cloexec = (flags & O_CLOEXEC) ? (g.fds.cloexec | BIT(fd)) : (g.fds.cloexec & ~BIT(fd));
  g.fds.nonblock = (flags & O_NONBLOCK) ? (g.fds.nonblock | BIT(fd)) : (g.fds.nonblock & ~BIT(fd));
  int acc = flags & O_ACCMODE;
  g.fds.rd = (acc == O_RDONLY || acc == O_RDWR) ? (g.fds.rd | BIT(fd)) : (g.fds.rd & ~BIT(fd));
  g.fds.wr = (acc == O_WRONLY || acc == O_RDWR) ? (g.fds.wr | BIT(fd)) : (g.fds.wr & ~BIT(fd));
  g.fds.obj[fd] = obj;
  return fd;
}

int verif_dup2(int oldfd, int newfd)
{
  os_call();
  V_ASSERT("C12/os.dup2.child_only", g.in_child);
  if (!IS_OPEN(oldfd) || !FD_OK(newfd)) {
    fault(EBADF);
    return -1;
  }
  int e = maybe_fault();
  if (e) {
    fault(e);
    return -1;
  }
  if (oldfd == newfd) {
    return newfd;
  }
  g.fds.open |= BIT(newfd);
  g.fds.lib |= BIT(newfd);
  g.fds.cloexec &= ~BIT(newfd);
  g.fds.nonblock = (g.fds.nonblock & BIT(oldfd)) ? (g.fds.nonblock | BIT(newfd)) : (g.fds.nonblock & ~BIT(newfd));
  g.fds.rd = (g.fds.rd & BIT(oldfd)) ? (g.fds.rd | BIT(newfd)) : (g.fds.rd & ~BIT(newfd));
  g.fds.wr = (g.fds.wr & BIT(oldfd)) ? (g.fds.wr | BIT(newfd)) : (g.fds.wr & ~BIT(newfd));
  g.fds.obj[newfd] = g.fds.obj[oldfd];
  return newfd;
}

int verif_fileno(FILE *f)
{
  os_call();
  int fd = -1;
  if (f == stdin) {
    fd = gc.cfg_std_fileno[0];
  } else if (f == stdout) {
    fd = gc.cfg_std_fileno[1];
  } else if (f == stderr) {
    fd = gc.cfg_std_fileno[2];
  } else {
    V_ASSERT("C10/os.fileno.known_file", f == VERIF_USER_FILE);
    fd = gc.cfg_file_fd;
  }
  if (fd < 0) {
    if (f == VERIF_USER_FILE) {
      fault(EBADF); /* an unusable redirect target: start has to report it */
    } else {
      g.e.err = EBADF; /* a missing parent stream: the library falls back to the null device */
    }
    return -1;
  }
  return fd;
}

/* ------------------------------ read / write ------------------------------ */

#ifndef VERIF_MAX_EINTR
#define VERIF_MAX_EINTR 2
#endif
#define RW_MAX 0x7ffff000L /* Linux transfers at most this many bytes */

ssize_t verif_read(int fd, void *buf, size_t n)
{
  os_call();
  g.rl.rd_calls++; /* unsigned: wraps, so "exactly one more call" is always expressible */
  g.rl.rd_fd = fd;
  g.rl.rd_buf = buf;
  g.rl.rd_n = n;
  g.rl.rd_errno = 0;
  g.rl.rd_eof = false;
  V_ASSERT("C02/os.read.descriptor_open", IS_OPEN(fd));
  if (!IS_OPEN(fd)) {
    g.e.err = EBADF;
    g.rl.rd_errno = EBADF;
    g.rl.rd_ret = -1;
    return -1;
  }
  bool blocking = (g.fds.nonblock & BIT(fd)) == 0;

  /* The error pipes between fork and exec (assumed pipe law, DESIGN §7-9): the
     parent reads what the child wrote; end-of-file iff the child closed its end
     without reporting (it reached exec, or returned in fork mode). */
  if (!g.in_child && g.child_pid > 0 && n == sizeof(int) && g.fds.obj[fd] >= OBJ_PIPE_BASE &&
      (g.fork_stage == 1 || g.fork_stage == 2)) {
    int stage = g.fork_stage;
    g.fork_stage = stage + 1;
    g.may_block = g.may_block || blocking;
    /* pipe law: end-of-file is seen only once every write end is closed. The
       parent waits here for the child to close its copy; if the parent itself
       still holds the write end of this pipe, a successful child never makes
       this read return (self-deadlock). */
    {
      unsigned want = (unsigned) g.fds.obj[fd] + 1u;
#define VERIF_HELD(i) (((g.fds.open >> (i)) & 1u) & (unsigned) (g.fds.obj[i] == want))
      unsigned held = VERIF_HELD(0) | VERIF_HELD(1) | VERIF_HELD(2) | VERIF_HELD(3) | VERIF_HELD(4) | VERIF_HELD(5) | VERIF_HELD(6) | VERIF_HELD(7) |
                      VERIF_HELD(8) | VERIF_HELD(9) | VERIF_HELD(10) | VERIF_HELD(11) | VERIF_HELD(12) | VERIF_HELD(13) | VERIF_HELD(14) | VERIF_HELD(15) |
                      VERIF_HELD(16) | VERIF_HELD(17) | VERIF_HELD(18) | VERIF_HELD(19) | VERIF_HELD(20) | VERIF_HELD(21) | VERIF_HELD(22) | VERIF_HELD(23) |
                      VERIF_HELD(24) | VERIF_HELD(25) | VERIF_HELD(26) | VERIF_HELD(27) | VERIF_HELD(28) | VERIF_HELD(29) | VERIF_HELD(30) | VERIF_HELD(31);
#undef VERIF_HELD
      V_ASSERT("C04/os.read.parent_closed_its_write_end_before_waiting_for_the_child", (g.fds.obj[fd] & 1) != 0 || held == 0);
    }
    /* a signal handler may interrupt the read: the library retries. At most
       VERIF_MAX_EINTR interruptions in a row are modelled (environment bound). */
    if (!gc.cfg_nofault && g.eintr_run < VERIF_MAX_EINTR && nondet_bool()) {
      g.eintr_run++;
      g.fork_stage = stage; /* nothing consumed */
      g.e.err = EINTR;
      g.rl.rd_errno = EINTR;
      g.rl.rd_ret = -1;
      return -1;
    }
    g.eintr_run = 0;
    if ((stage == 1 && g.child_fate == FATE_FAILED_EARLY) ||
        (stage == 2 && g.child_fate == FATE_FAILED_LATE)) {
      *(int *) buf = g.child_fate_errno;
      g.rl.rd_ret = (long) sizeof(int);
      return (ssize_t) sizeof(int);
    }
    g.rl.rd_ret = 0;
    g.rl.rd_eof = true;
    return 0;
  }

  if (blocking) {
    g.may_block = true;
  }
  int e = maybe_fault();
  if (e) {
    if ((e == EAGAIN && blocking) || e == EPIPE) {
      e = EINTR; /* EAGAIN only from a nonblocking descriptor; read never EPIPE */
    }
    fault(e);
    g.rl.rd_errno = e;
    g.rl.rd_ret = -1;
    return -1;
  }
  long r = nondet_long();
  __CPROVER_assume(r >= 0 && (size_t) r <= n && r <= RW_MAX);
  if (r > 0) {
    __CPROVER_havoc_slice(buf, (size_t) r);
  }
  g.rl.rd_ret = r;
  /* 0 for a request of n > 0 bytes is end of stream; a request of 0 bytes
     returns 0 and says nothing about the stream */
  g.rl.rd_eof = r == 0 && n > 0;
  return r;
}

ssize_t verif_write(int fd, const void *buf, size_t n)
{
  os_call();
  g.wl.wr_calls++;
  g.wl.wr_fd = fd;
  g.wl.wr_buf = buf;
  g.wl.wr_n = n;
  g.wl.wr_errno = 0;
  V_ASSERT("C02/os.write.descriptor_open", IS_OPEN(fd));
  if (!IS_OPEN(fd)) {
    g.e.err = EBADF;
    g.wl.wr_errno = EBADF;
    g.wl.wr_ret = -1;
    return -1;
  }
  bool blocking = (g.fds.nonblock & BIT(fd)) == 0;

  /* child side: the report on the error pipe */
  if (g.in_child && n == sizeof(int)) {
    g.child_report = *(const int *) buf;
    if (g.child_reports < 100) {
      g.child_reports++;
    }
    return (ssize_t) sizeof(int);
  }

  /* start-up input: the k-th write continues exactly where the previous
     one stopped */
  bool input = gc.in_data != NULL && __CPROVER_same_object(buf, gc.in_data);
  if (input) {
    V_ASSERT("C02/os.write.input_cursor",
             buf == (const void *) (gc.in_data + g.stream_pos) &&
                 n == gc.in_size - g.stream_pos);
    V_ASSERT("C02/os.write.input_one_descriptor", g.in_fd == -1 || g.in_fd == fd);
    /* start-up input must never make start block (C17) */
    V_ASSERT("C17/os.write.input_nonblocking", !blocking);
    g.in_fd = fd;
  }

  if (blocking) {
    g.may_block = true;
  }
  int e = maybe_fault();
  if (e) {
    if (e == EAGAIN && blocking) {
      e = EINTR;
    }
    fault(e);
    g.wl.wr_errno = e;
    g.wl.wr_ret = -1;
    return -1;
  }
  /* the bytes are read by the kernel: they must be readable */
  if (n > 0) {
    V_ASSERT("C14/os.write.buffer_readable", __CPROVER_r_ok(buf, n));
  }
  long r = nondet_long();
  /* write(n > 0) on a pipe never reports 0 */
  __CPROVER_assume(r >= (n > 0 ? 1 : 0) && (size_t) r <= n && r <= RW_MAX);
  if (input) {
    g.stream_pos += (size_t) r;
  }
  g.wl.wr_ret = r;
  return r;
}

/* ---------------------------------- poll ---------------------------------- */

int verif_poll(struct pollfd *fds, nfds_t nfds, int timeout)
{
  os_call();
  if (g.pl.poll_calls < 1000) {
    g.pl.poll_calls++;
  }
  g.pl.poll_timeout = timeout;
  g.pl.poll_at = g.now;
  g.pl.poll_fds = 0;
  g.pl.poll_ready = 0;
  g.pl.poll_nfds = nfds;
  if (timeout != 0) {
    g.may_block = true;
  }
  if (gc.plan_on) {
    bool next = g.plan_pos < gc.plan_n && g.plan_pos < 8 && gc.plan_kind[g.plan_pos] == PLAN_WAIT;
    V_ASSERT("C07+C15/stop.wait_is_next_planned_step", next);
    if (next) {
      int t = gc.plan_arg[g.plan_pos];
      int want = t;
      if (t == -2) { /* until-deadline */
        want = gc.plan_deadline == -1 ? -1
               : gc.plan_deadline > g.now ? (int) (gc.plan_deadline - g.now) : 0;
      }
      V_ASSERT("C07+C08+C15/stop.wait_uses_action_timeout", timeout == want);
    }
    g.plan_pos++;
  }
  int count = 0;
  for (nfds_t i = 0; i < nfds; i++) {
    short re = 0;
    int fd = fds[i].fd;
    if (fd >= 0) {
      if (!IS_OPEN(fd)) {
        re = POLLNVAL;
      } else {
        re = nondet_short();
        __CPROVER_assume((re & ~(fds[i].events | POLLHUP | POLLERR)) == 0);
        g.pl.poll_fds |= BIT(fd);
        if (re != 0) {
          g.pl.poll_ready |= BIT(fd);
        }
      }
    }
    fds[i].revents = re;
    if (i < 16) {
      g.pl.poll_fdv[i] = fd;
      g.pl.poll_evv[i] = fds[i].events;
      g.pl.poll_rev[i] = re;
    }
    if (re != 0) {
      count++;
    }
  }
  /* the call may fail as a whole (revents are then unspecified); poll never
     fails with EPIPE, which reproc uses for "nothing left to poll" */
  int e = maybe_fault();
  if (e == EPIPE) {
    e = EINTR;
  }
  if (e) {
    fault(e);
    g.pl.poll_ret = -1;
    g.pl.poll_ready = 0;
    return -1;
  }
  /* an infinite poll returns only with an event */
  __CPROVER_assume(count > 0 || timeout >= 0);
  int64_t d = 0;
  if (count == 0) {
    d = timeout; /* the full timeout elapsed */
  } else {
    d = nondet_long();
    __CPROVER_assume(d >= 0 && d <= 0x7fffffff);
    __CPROVER_assume(timeout < 0 || d <= timeout);
  }
  g.now += d;
  g.pl.poll_ret = count;
  return count;
}

/* -------------------------------- processes -------------------------------- */

pid_t verif_fork(void)
{
  os_call();
  if (g.fork_calls < 100) {
    g.fork_calls++;
  }
  if (gc.cfg_child_side) {
    g.in_child = true;
    return 0;
  }
  int e = maybe_fault();
  if (e) {
    fault(e);
    return -1;
  }
  int pid = nondet_int();
  __CPROVER_assume(pid > 0);
  g.child_pid = pid;
  g.child_live = true;
  g.child_reaped = false;
  g.child_wstatus = nondet_int();
  __CPROVER_assume(WST_LEGAL(g.child_wstatus));
  /* what the child will do before exec: decided here, observed through the
     error pipe (verif_read) */
  g.child_fate = nondet_int();
  __CPROVER_assume(g.child_fate == FATE_EXECED || g.child_fate == FATE_FAILED_EARLY ||
                   g.child_fate == FATE_FAILED_LATE);
  g.fork_stage = 1;
  g.child_fate_errno = nondet_int();
  __CPROVER_assume(g.child_fate_errno > 0 && g.child_fate_errno < 134);
  return pid;
}

pid_t verif_waitpid(pid_t pid, int *wstatus, int options)
{
  os_call();
  if (g.wait_calls < 100) {
    g.wait_calls++;
  }
  bool own = pid > 0 && pid == g.child_pid && g.child_live && !g.child_reaped;
  V_ASSERT("C06/os.waitpid.own_unreaped_child", own);
  if (gc.plan_on) {
    V_ASSERT("C01+C07/stop.reap_only_after_exit_seen", g.pl.poll_ret > 0);
  }
  if (!own) {
    g.e.err = ECHILD;
    return -1;
  }
  int e = maybe_fault();
  if (e == EINTR && g.fork_stage != 0) {
    /* inside start the library retries an interrupted waitpid: interruptions
       come in runs of at most VERIF_MAX_EINTR (environment bound) and are not
       failures start has to report. (Outside start - reproc_wait - EINTR is an
       error like any other and is returned to the caller.) */
    if (g.eintr_run >= VERIF_MAX_EINTR) {
      e = 0;
    } else {
      g.eintr_run++;
      g.e.err = EINTR;
      g.wait_eintr = true;
      return -1;
    }
  }
  g.eintr_run = 0;
  if (e) {
    fault(e);
    if (g.fork_stage != 0) {
      /* inside start the only other way waitpid on the own child fails is ECHILD:
         SIGCHLD is ignored and the kernel has already reaped the child */
      g.e.err = ECHILD;
      g.e.last_fault = ECHILD;
      if (g.e.faults == 1) g.e.first_errno = ECHILD;
      g.child_live = false;
      g.child_reaped = true;
    }
    return -1;
  }
  if ((options & WNOHANG) != 0 && nondet_bool()) {
    return 0; /* still running: nothing reaped, *wstatus untouched */
  }
  if ((options & (WUNTRACED | WCONTINUED)) != 0 && nondet_bool()) {
    /* asked for by the caller: a stopped or continued child is reported, still
       running and not reaped */
    if (wstatus != NULL) {
      *wstatus = (options & WUNTRACED) != 0 ? (0x7f | (SIGSTOP << 8)) : 0xffff;
    }
    return pid;
  }
  if ((options & WNOHANG) == 0) {
    g.may_block = true; /* returns only once the child is dead */
  }
  g.child_reaped = true;
  g.child_live = false;
  if (g.reaps < 100) {
    g.reaps++;
  }
  if (wstatus != NULL) {
    *wstatus = g.child_wstatus;
  }
  return pid;
}

int verif_kill(pid_t pid, int sig)
{
  os_call();
  if (g.kill_calls < 100) {
    g.kill_calls++;
  }
  bool own = pid > 0 && pid == g.child_pid && g.child_live && !g.child_reaped;
  V_ASSERT("C06/os.kill.own_unreaped_child", own);
  if (gc.plan_on) {
    bool next = g.plan_pos < gc.plan_n && g.plan_pos < 8 && gc.plan_kind[g.plan_pos] == PLAN_KILL;
    V_ASSERT("C07+C15/stop.signal_is_next_planned_step", next && gc.plan_arg[g.plan_pos] == sig);
    /* escalation only after the preceding wait expired (and, for an
       until-deadline wait, only once the deadline has passed) */
    if (g.plan_pos > 0 && g.plan_pos <= 8 && gc.plan_kind[g.plan_pos - 1] == PLAN_WAIT) {
      V_ASSERT("C07+C15/stop.escalates_only_after_wait_expired", g.pl.poll_ret == 0);
      V_ASSERT("C15/stop.no_signal_before_deadline",
               gc.plan_arg[g.plan_pos - 1] != -2 ||
                   (gc.plan_deadline != -1 && g.now >= gc.plan_deadline));
    }
    g.plan_pos++;
  }
  int e = maybe_fault();
  if (e) {
    fault(e);
    return -1;
  }
  if (g.nsig < 4) {
    g.sig_log[g.nsig] = sig;
  }
  if (g.nsig < 100) {
    g.nsig++;
  }
  return 0;
}

/* The launch contract (child side): everything C03/C10/C11/C12 promise about
   the started program is asserted here, at the moment the program image would
   be replaced. */
int verif_execvp(const char *file, char *const argv[])
{
  os_call();
  V_ASSERT("C12/os.exec.child_only", g.in_child);
  /* reachability probe: must FAIL in the harnesses that list it (spec must_fail) */
#ifndef VERIF_NO_CANARY
  __CPROVER_assert(0, "reach/exec");
#endif

  V_ASSERT("C10/exec.stdin_is_requested_object",
           IS_OPEN(0) && g.fds.obj[0] == gc.want_obj[0]);
  V_ASSERT("C10/exec.stdout_is_requested_object",
           IS_OPEN(1) && g.fds.obj[1] == gc.want_obj[1]);
  V_ASSERT("C10/exec.stderr_is_requested_object",
           IS_OPEN(2) && g.fds.obj[2] == gc.want_obj[2]);
  V_ASSERT("C10/exec.std_streams_survive_exec", (g.fds.cloexec & 7u) == 0);
  V_ASSERT("C10/exec.stdin_direction",
           gc.want_acc[0] != 1 || (g.fds.rd & BIT(0)) != 0);
  V_ASSERT("C10/exec.stdout_direction",
           gc.want_acc[1] != 2 || (g.fds.wr & BIT(1)) != 0);
  V_ASSERT("C10/exec.stderr_direction",
           gc.want_acc[2] != 2 || (g.fds.wr & BIT(2)) != 0);

  /* C11: every other open descriptor is close-on-exec, except the exit handle */
  {
    /* the exit handle: the descriptor start was given, or - when that one is
       numbered like a standard stream - the duplicate the library moved it to */
    int exit_fd = (gc.want_exit_fd >= 0 && gc.want_exit_fd <= 2 && g.exit_moved_to >= 0) ? g.exit_moved_to : gc.want_exit_fd;
    uint32_t keep = 7u | MASK_OF(exit_fd);
    V_ASSERT("C11/exec.nothing_else_inherited",
             (g.fds.open & ~g.fds.cloexec & ~keep) == 0);
    V_ASSERT("C01+C07+C08+C09+C11+C15/exec.exit_handle_inherited",
             IS_OPEN(exit_fd) && exit_fd > 2 && (g.fds.cloexec & BIT(exit_fd)) == 0 &&
                 g.fds.obj[exit_fd] == gc.want_exit_obj);
  }

  V_ASSERT("C12/exec.signal_mask_empty", g.sigmask == 0);
  /* signals 1..31 (KILL and STOP are default by OS law) */
  V_ASSERT("C12/exec.dispositions_default",
           (~g.disp_default & 0xfffffffeUL & ~(1UL << SIGKILL) & ~(1UL << SIGSTOP)) == 0);

  /* C03: the program is a copy of argv[0], or cwd/argv[0] when a working directory
     is requested and argv[0] is a relative path (resolved before chdir) */
  V_ASSERT("C03+C04/exec.program_is_argv0_or_cwd_prefixed",
           gc.want_prepend ? (file != NULL && file == g.prep_ptr && g.prep_src == gc.want_argv0)
                          : (file != NULL && file == g.dup_ptr && g.dup_src == gc.want_argv0));
  V_ASSERT("C03/exec.argv_is_callers", argv == gc.want_argv);
  /* the environment is the vector strv_concat built from the parent's entries
     (when extending) and the extra entries, in that order */
  V_ASSERT("C03/exec.environment_is_parent_then_extra",
           environ != NULL && environ == g.env_ptr && g.env_a == gc.want_env_a &&
               g.env_b == gc.want_env_b);
  V_ASSERT("C03/exec.working_directory", g.cwd_id == gc.want_cwd_id);

  int e = maybe_fault();
  if (e) {
    fault(e);
    return -1;
  }
  g.execd = true;
#ifdef VERIF_NATIVE
  verif_stop("execvp succeeded");
#endif
  __CPROVER_assume(0);
  return 0;
}

void verif__exit(int code)
{
  os_call();
#ifndef VERIF_NO_CANARY
  __CPROVER_assert(0, "reach/_exit");
#endif
  V_ASSERT("C12/os._exit.child_only", g.in_child);
  /* C04: a child that gives up before exec tells the parent why, once, with a
     positive errno — the cause of the first failure */
  V_ASSERT("C04/child.failure_reported_once", g.child_reports == 1);
  V_ASSERT("C04/child.report_is_positive_errno", g.child_report > 0);
  /* the child gives up at the first failure it does not ignore: the report is
     the errno of the call that just failed - or EMFILE when it refused to close
     more than 1 Mi descriptors (the only failure that is not a failed call) */
  {
    bool refusal = gc.cfg_rlim_cur > 1048577UL;
    V_ASSERT("C04/child.report_is_real_cause",
             (g.e.faults > 0 && g.child_report == g.e.last_fault) ||
                 (refusal && g.child_report == EMFILE));
  }
  V_ASSERT("C04/child.no_exec_after_failure", !g.execd);
  g.exit_code = code;
  g.exited = true;
#ifdef VERIF_NATIVE
  verif_stop("_exit");
#endif
  __CPROVER_assume(0);
}

int verif_chdir(const char *path)
{
  os_call();
  V_ASSERT("C12/os.chdir.child_only", g.in_child);
  int e = maybe_fault();
  if (e) {
    fault(e);
    return -1;
  }
  g.cwd_id = (path == gc.cfg_wd) ? 1 : 2;
  return 0;
}

int verif_getrlimit(int resource, struct rlimit *rl)
{
  os_call();
  V_ASSERT("C11/os.getrlimit.nofile", resource == RLIMIT_NOFILE);
  int e = maybe_fault();
  if (e) {
    fault(e);
    return -1;
  }
  rl->rlim_cur = gc.cfg_rlim_cur;
  rl->rlim_max = RLIM_INFINITY;
  return 0;
}

/* --------------------------------- signals --------------------------------- */
/* sigset_t is modelled by its first word (signals 1..64). */

int verif_sigfillset(sigset_t *set)
{
  set->__val[0] = ~0UL;
  return 0;
}

int verif_sigemptyset(sigset_t *set)
{
  set->__val[0] = 0UL;
  return 0;
}

int verif_pthread_sigmask(int how, const sigset_t *set, sigset_t *oldset)
{
  os_call();
  if (g.sigmask_calls < 100) {
    g.sigmask_calls++;
  }
  /* Only the first (blocking) call on the parent side, and the child's call,
     may fail: C12 exempts "the restoring call itself". Returns the error
     number; does not touch errno. */
  if ((g.sigmask_calls == 1 || g.in_child) && !gc.cfg_nofault && nondet_bool()) {
    int e = nondet_int();
    __CPROVER_assume(e > 0 && e < 134);
    if (g.e.faults == 0) {
      g.e.first_errno = e;
    }
    g.e.last_fault = e;
    if (g.e.faults < 1000) {
      g.e.faults++;
    }
    return e;
  }
  /* like the kernel: the new set is read before the old one is stored (the
     library passes the same object for both when it restores the mask) */
  uint64_t next = g.sigmask;
  if (set != NULL) {
    V_ASSERT("C12/os.sigmask.setmask_only", how == SIG_SETMASK);
    next = set->__val[0];
  }
  if (oldset != NULL) {
    oldset->__val[0] = g.sigmask;
  }
  g.sigmask = next;
  return 0;
}

/* single-threaded configuration (REPROC_MULTITHREADED off): the same call with
   the sigprocmask convention - -1 and errno instead of the error number */
int verif_sigprocmask(int how, const sigset_t *set, sigset_t *oldset)
{
  int e = verif_pthread_sigmask(how, set, oldset);
  if (e != 0) {
    g.e.err = e;
    return -1;
  }
  return 0;
}

int verif_sigaction(int sig, const struct sigaction *act, struct sigaction *old)
{
  os_call();
  V_ASSERT("C12/os.sigaction.child_only", g.in_child);
  if (sig <= 0 || sig >= 65 || sig == SIGKILL || sig == SIGSTOP) {
    g.e.err = EINVAL;
    return -1;
  }
  int e = maybe_fault();
  if (e) {
    if (e == EINVAL) {
      e = EFAULT; /* EINVAL is reserved for invalid signal numbers */
    }
    fault(e);
    return -1;
  }
  if (old != NULL) {
    /* the kernel stores the previous action there: the pointer must be valid */
    *old = (struct sigaction){ 0 };
  }
  if (act != NULL) {
    if (act->sa_handler == SIG_DFL) {
      g.disp_default |= (1UL << sig);
    } else {
      g.disp_default &= ~(1UL << sig);
    }
  }
  return 0;
}

/* ---------------------------------- clock ---------------------------------- */

int verif_clock_gettime(clockid_t clk, struct timespec *ts)
{
  os_call();
  V_ASSERT("C08/os.clock.realtime", clk == CLOCK_REALTIME);
  /* the kernel answers with some timespec; the virtual millisecond clock g.now
     is *defined* as that instant in ms, and never goes back */
  long sec = nondet_long();
  long nsec = nondet_long();
  __CPROVER_assume(sec > 0 && sec < ((long) 1 << 42));
  __CPROVER_assume(nsec >= 0 && nsec < 1000000000L);
  int64_t n = sec * 1000 + nsec / 1000000;
  __CPROVER_assume(n >= g.now && n - g.now <= 0x7fffffff);
  g.now = n;
  ts->tv_sec = sec;
  ts->tv_nsec = nsec;
  return 0;
}

/* --------------------------------- memory ---------------------------------- */
/* Allocation failure is an injected fault like any other (CBMC is run without
   --malloc-may-fail so that every nondeterministic choice goes through
   nondet_*() and can be scripted for the native replay). */

void *verif_malloc(size_t n)
{
  if (!gc.cfg_nofault && nondet_bool()) {
    fault(ENOMEM);
    return NULL;
  }
  return malloc(n);
}

void *verif_calloc(size_t n, size_t m)
{
  if (!gc.cfg_nofault && nondet_bool()) {
    fault(ENOMEM);
    return NULL;
  }
  return calloc(n, m);
}

void *verif_realloc(void *p, size_t n)
{
  if (!gc.cfg_nofault && nondet_bool()) {
    fault(ENOMEM);
    return NULL;
  }
  return realloc(p, n);
}

#ifndef VERIF_REAL_STRDUP
/* strdup by provenance: a fresh object recorded as "copy of s" */
char *verif_strdup(const char *s)
{
  if (!gc.cfg_nofault && nondet_bool()) {
    fault(ENOMEM);
    return NULL;
  }
  char *p = malloc(1);
  if (p == NULL) {
    fault(ENOMEM);
    return NULL;
  }
  p[0] = s[0] == '\0' ? '\0' : '\0';
  g.dup_src = s;
  g.dup_ptr = p;
  return p;
}
#endif

#ifndef VERIF_OWN_GETCWD
char *verif_getcwd(char *buf, size_t size)
{
  (void) buf;
  (void) size;
  os_call();
  fault(EACCES);
  return NULL;
}
#endif
