/* Ghost state of the OS / libc contract layer (DESIGN.md §2.3).
 *
 * One struct so that contracts can frame it with a single assigns target and
 * state "what did not change" as explicit postconditions over its fields.
 * Shared by the CBMC build and by the native replay build (VERIF_NATIVE). */
#ifndef VERIF_GHOST_H
#define VERIF_GHOST_H

#include <stdbool.h>
#include <stddef.h>
#include <stdint.h>

#define VERIF_NFD 32 /* model bound: descriptors that can be open are < 32 */

/* object identities behind descriptors */
enum {
  OBJ_NONE = 0,
  OBJ_DEVNULL = 1,
  OBJ_USER_BASE = 8,  /* +k: k-th object the user / environment owns       */
  OBJ_PATH_BASE = 16, /* +k: file named by registered path k (k < 4)        */
  OBJ_PATH_OTHER = 23,
  OBJ_PIPE_BASE = 32  /* +2n: read end of pipe n, +2n+1: write end          */
};

enum { PLAN_KILL = 1, PLAN_WAIT = 2 };
/* what the forked child does: reaches exec / returns to the caller (fork mode),
   or fails inside process_fork (EARLY) or between process_fork and exec (LATE) */
enum { FATE_NONE = 0, FATE_EXECED = 1, FATE_FAILED_EARLY = 2, FATE_FAILED_LATE = 3 };

struct ghost {
  /* ---- descriptor ledger: bit k describes descriptor k -------------------- */
  struct {
    uint32_t open;     /* descriptor is open                                    */
    uint32_t lib;      /* ... and was opened by the library (subset of open)    */
    uint32_t cloexec;  /* FD_CLOEXEC                                            */
    uint32_t nonblock; /* O_NONBLOCK                                            */
    uint32_t rd, wr;   /* access mode allows reading / writing                  */
    uint8_t obj[VERIF_NFD];
    uint8_t next_pipe; /* number of pipes created so far                        */
  } fds;
  /* ---- the one child this handle may own --------------------------------- */
  int child_pid;      /* 0: never forked                                      */
  bool child_live;    /* forked and not yet reaped                            */
  bool child_reaped;
  int child_wstatus;  /* what waitpid will report (legal status)              */
  int child_fate;     /* what the child does between fork and exec            */
  int child_fate_errno;
  int reaps;          /* successful reaps                                     */
  int wait_calls, kill_calls, fork_calls;
  int eintr_run;      /* consecutive EINTR answers given to the current retry loop */
  bool wait_eintr;    /* the last waitpid was interrupted */
  int fork_stage;     /* 0: no fork; 1: forked, process_fork's report pending;
                         2: process_start's report pending; 3: both read */
  int sig_log[4];     /* signals delivered to the child, in order             */
  int nsig;
  /* ---- process-wide state the caller owns --------------------------------- */
  uint64_t sigmask;      /* calling thread's signal mask (signals 1..64)      */
  uint64_t disp_default; /* bit s: disposition of signal s is SIG_DFL         */
  int cwd_id;            /* identity of the working directory (0: original)   */
  int sigmask_calls;
  /* ---- which side of fork we are on --------------------------------------- */
  bool in_child;
  bool execd;           /* execvp succeeded (child side)                      */
  int child_reports;    /* writes to the error pipe (child side)              */
  int child_report;     /* last value written there                           */
  int exit_code;        /* argument of _exit (child side)                     */
  int exit_moved_to;    /* duplicate of the exit handle above the standard streams, or -1 */
  bool exited;
  /* ---- clock ---------------------------------------------------------------- */
  int64_t now;          /* virtual CLOCK_REALTIME in ms, monotone             */
  /* ---- errors, faults, effort ---------------------------------------------- */
  struct {
    int err;              /* errno                                              */
    int faults;           /* failed calls the library has to react to, so far   */
    int first_errno;      /* errno of the first of them                         */
    int last_fault;       /* errno of the most recent one                       */
    int os_calls;         /* calls into the OS layer                            */
  } e;
  bool may_block;       /* an OS contract that is allowed to sleep was used   */
  /* ---- last read / write / poll (to tie library results to kernel results) - */
  struct { unsigned rd_calls; int rd_fd; const void *rd_buf; size_t rd_n; long rd_ret; int rd_errno; bool rd_eof; /* rd_eof: end of stream (0 returned for n > 0) */ } rl;
  struct { unsigned wr_calls; int wr_fd; const void *wr_buf; size_t wr_n; long wr_ret; int wr_errno; } wl;
  struct {
    int poll_calls, poll_timeout, poll_ret; int64_t poll_at;
    uint32_t poll_fds;    /* descriptors handed to the last poll                */
    uint32_t poll_ready;  /* ... of which reported with revents != 0            */
    unsigned long poll_nfds;
    int poll_fdv[16]; short poll_evv[16]; short poll_rev[16]; /* per slot: fd, events asked, revents */
  } pl;
  /* ---- start-up input cursor (C02) ------------------------------------------ */
  int in_fd; size_t stream_pos;
  /* strdup / path_prepend_cwd / strv_concat provenance */
  const char *dup_src; char *dup_ptr;       /* strdup: dup_ptr is a copy of dup_src      */
  const char *prep_src; char *prep_ptr;     /* path_prepend_cwd: prep_ptr = cwd/prep_src */
  char **env_ptr; char *const *env_a; const char *const *env_b; /* strv_concat: env_ptr = a ++ b */
  void *last_freed_vec;      /* vector last handed to strv_free */
  int plan_pos;              /* stop-sequence monitor: next expected step */
};

/* What the harness fixes before the call and nothing in the OS layer ever
   writes: configuration of the OS model, the launch request checked by the execvp
   contract, the stop-sequence plan. A separate object, so that a contract that
   frames `g` as a whole leaves it alone. */
struct ghost_cfg {
  /* ---- configuration chosen by the harness ---------------------------------- */
  bool cfg_nofault;      /* no injected failures                               */
  bool cfg_child_side;   /* fork() returns 0                                   */
  bool cfg_no_low_fresh;  /* new descriptors are numbered above 2 (known finding D11) */
  bool cfg_release_after_stop; /* destroy harness: closes only once the stop plan is done */
  int cfg_std_fileno[3]; /* what fileno(stdin/stdout/stderr) answers, or -1    */
  int cfg_file_fd;       /* what fileno(user FILE) answers, or -1              */
  const char *cfg_path[4];   /* registered user paths                          */
  const char *cfg_wd;        /* requested working directory                    */
  uint64_t cfg_rlim_cur;     /* RLIMIT_NOFILE soft limit                       */
  /* ---- launch request (checked by the execvp contract, child side) ----------- */
  uint8_t want_obj[3];       /* object each standard stream must refer to      */
  uint8_t want_acc[3];       /* 1: must be readable, 2: must be writable, 0: any */
  int want_exit_fd; uint8_t want_exit_obj;  /* the exit handle and the object behind it */
  const char *want_file; char *const *want_argv; char **want_env;
  int want_cwd_id;
  /* ---- stop-sequence monitor (C07/C15): the expected OS-level steps ----------- */
  bool plan_on;
  int plan_n;
  int plan_kind[8];          /* PLAN_KILL / PLAN_WAIT                          */
  int plan_arg[8];           /* signal number / raw action timeout             */
  int plan_invalid_at;       /* step position of the first out-of-range action, or -1 */
  int64_t plan_deadline;     /* the handle's deadline (-1: none)               */
  const uint8_t *in_data; size_t in_size;   /* start-up input (C02) */
  const char *want_argv0; bool want_prepend;
  char *const *want_env_a; const char *const *want_env_b; /* expected environment = a ++ b */
};

extern struct ghost g;
extern struct ghost_cfg gc;

extern char **environ;

/* Branch-free (no && / || / ?:): contract clauses built from these compile to
   straight-line code, which keeps CBMC's symbolic execution of the (many,
   large) clauses cheap. All operands are side-effect free. */
#define FD_OK(fd) (((fd) >= 0) & ((fd) < VERIF_NFD))
#define BIT(fd) (1u << ((unsigned) (fd) & 31u))
#define IS_OPEN(fd) ((unsigned) FD_OK(fd) & ((g.fds.open >> ((unsigned) (fd) & 31u)) & 1u))
#define IS_LIB(fd) ((unsigned) FD_OK(fd) & ((g.fds.lib >> ((unsigned) (fd) & 31u)) & 1u))
/* mask of a descriptor that may be -1 (invalid): 0 then */
#define MASK_OF(fd) ((unsigned) FD_OK(fd) << ((unsigned) (fd) & 31u))
/* short-circuit implication: use when b is only safe to evaluate under a */
#define IMPLIES(a, b) (!(a) || (b))
/* branch-free implication / conjunction helpers for pure operands */
#define IMPL(a, b) ((unsigned) !(a) | (unsigned) ((b) != 0))
#define B(x) ((unsigned) ((x) != 0))

/* legal wait status without WUNTRACED: exited(c) or signaled(s[, core]) */
#define WST_EXITED(w) (((w) & 0x7f) == 0)
#define WST_LEGAL(w)                                                           \
  (WST_EXITED(w) ? ((w) & ~0xff00) == 0                                        \
                 : (((w) & ~0xff) == 0 && ((w) & 0x7f) != 0x7f))
/* independent decode from the POSIX layout (not <sys/wait.h>) */
#define WST_DECODE(w) (WST_EXITED(w) ? (((w) >> 8) & 0xff) : 128 + ((w) & 0x7f))

/* nondeterministic choice: CBMC built-ins; scripted in the native replay */
int nondet_int(void);
unsigned nondet_uint(void);
bool nondet_bool(void);
long nondet_long(void);
unsigned long nondet_ulong(void);
short nondet_short(void);
unsigned char nondet_uchar(void);
void *nondet_ptr(void);

#ifdef VERIF_NATIVE
void verif_assert_fail(const char *label, const char *file, int line);
void verif_assume_fail(const char *what, const char *file, int line);
void verif_stop(const char *why);
#define __CPROVER_assert(c, label)                                             \
  do { if (!(c)) verif_assert_fail(label, __FILE__, __LINE__); } while (0)
#define __CPROVER_assume(c)                                                    \
  do { if (!(c)) verif_assume_fail(#c, __FILE__, __LINE__); } while (0)
#define __CPROVER_requires(...)
#define __CPROVER_ensures(...)
#define __CPROVER_assigns(...)
#define __CPROVER_frees(...)
#define __CPROVER_is_fresh(p, n) 1
#define __CPROVER_r_ok(p, n) 1
#define __CPROVER_w_ok(p, n) 1
#define __CPROVER_havoc_slice(p, n) verif_fill((p), (n))
#define __CPROVER_same_object(a, b) verif_same_object((a), (b))
bool verif_same_object(const void *a, const void *b);
void verif_fill(void *p, size_t n);
#endif

/* Contract clause macros. One labelled clause per line: the driver maps the
   (file, line) CBMC reports for a refuted clause back to its label, and
   lib/native.py turns the same clauses into native checks for the replay. */
#if defined(VERIF_EXTRACT)
#define CONTRACT(f) @@FN f @@
#define REQ(label, ...)
#define REQ_(...)
#define ENS(label, ...) @@ENS label @@ __VA_ARGS__ @@END
#define ENSX(label, ...) @@ENS label @@ __VA_ARGS__ @@END
#define ASSIGNS(...)
#define FREES(...)
#define RV verif_rv
#define OLD(...) __CPROVER_old(__VA_ARGS__)
#elif defined(VERIF_NATIVE)
#define CONTRACT(f)
#define REQ(label, ...)
#define REQ_(...)
#define ENS(label, ...)
#define ENSX(label, ...)
#define ASSIGNS(...)
#define FREES(...)
#define RV verif_rv
#else
#define CONTRACT(f)
#define REQ(label, ...) __CPROVER_requires(__VA_ARGS__)
#define REQ_(...) __CPROVER_requires(__VA_ARGS__)
#define ENS(label, ...) __CPROVER_ensures(__VA_ARGS__)
#define ASSIGNS(...) __CPROVER_assigns(__VA_ARGS__)
#define FREES(...) __CPROVER_frees(__VA_ARGS__)
/* ENSX: a clause no caller relies on. A harness that only *replaces* calls by this
   contract may be built with -DVERIF_SLIM, which drops these clauses (sound: the
   contract that is enforced in the function's own harness is a superset). */
#ifdef VERIF_SLIM
#define ENSX(label, ...)
#else
#define ENSX(label, ...) __CPROVER_ensures(__VA_ARGS__)
#endif
#define RV __CPROVER_return_value
#define OLD(...) __CPROVER_old(__VA_ARGS__)
#endif

/* every OS-contract precondition and harness assertion carries its label */
#define V_ASSERT(label, c) __CPROVER_assert((c), label)
/* canaries must FAIL: they prove the place is reachable (DESIGN §2.8-2) */
#ifdef VERIF_NO_CANARY
#define V_CANARY(label) ((void) 0)
#else
#define V_CANARY(label) __CPROVER_assert(0, "canary/" label)
#endif

void ghost_init(void);      /* nondeterministic, well-formed initial OS state */
bool ghost_wf(void);

#endif
