/* Pre-included (-include) into every translation unit of the verification and
 * replay builds, before any line of /repo.
 *
 * What it does, exactly (this is the complete list of what the build rewrites):
 *  1. pulls in the system headers first (their include guards make the later
 *     #includes of /repo no-ops), so that the renames below cannot touch a
 *     system declaration;
 *  2. maps every OS / libc entry point reproc calls to the contract of that
 *     function in os/os_posix.c (`close(fd)` -> `verif_close(fd)`, ...). Only
 *     the callee changes; no argument or control flow of /repo is altered.
 *     `fcntl` and `open` are variadic in libc; their contracts are fixed-arity
 *     (a variadic body makes the DFCC instance explode), the missing third
 *     argument is passed as 0;
 *  3. `errno` is the ghost `g.e.err`.
 */
#ifndef VERIF_RENAME_H
#define VERIF_RENAME_H

#define _POSIX_C_SOURCE 200809L

#include <assert.h>
#include <errno.h>
#include <fcntl.h>
#include <limits.h>
#include <poll.h>
#include <signal.h>
#include <stdbool.h>
#include <stddef.h>
#include <stdint.h>
#include <stdio.h>
#include <stdlib.h>
#include <string.h>
#include <sys/resource.h>
#include <sys/wait.h>
#include <time.h>
#include <unistd.h>

#include "ghost.h"

#undef errno
#define errno (g.e.err)

#define VERIF_PICK3(a, b, c, ...) a, b, c
#define fcntl(...) verif_fcntl(VERIF_PICK3(__VA_ARGS__, 0, 0))
#define open(...) verif_open(VERIF_PICK3(__VA_ARGS__, 0, 0))
int verif_fcntl(int fd, int cmd, long arg);
int verif_open(const char *path, int flags, long mode);

/* function-like macros: only call sites are redirected; variables, fields and
   struct tags spelled the same (`pipe`, `read`, `write`, `fork`,
   `struct sigaction`) are left alone. */
#define pipe(a) verif_pipe(a)
#define close(a) verif_close(a)
#define read(a, b, c) verif_read(a, b, c)
#define write(a, b, c) verif_write(a, b, c)
#define poll(a, b, c) verif_poll(a, b, c)
#define dup2(a, b) verif_dup2(a, b)
#define fork() verif_fork()
#define waitpid(a, b, c) verif_waitpid(a, b, c)
#define kill(a, b) verif_kill(a, b)
#define execvp(a, b) verif_execvp(a, b)
#define _exit(a) verif__exit(a)
#define chdir(a) verif_chdir(a)
#define getcwd(a, b) verif_getcwd(a, b)
#define getrlimit(a, b) verif_getrlimit(a, b)
#define sigfillset(a) verif_sigfillset(a)
#define sigemptyset(a) verif_sigemptyset(a)
#define pthread_sigmask(a, b, c) verif_pthread_sigmask(a, b, c)
#define sigprocmask(a, b, c) verif_sigprocmask(a, b, c)
#define sigaction(a, b, c) verif_sigaction(a, b, c)
#define clock_gettime(a, b) verif_clock_gettime(a, b)
#define fileno(a) verif_fileno(a)
#define malloc(a) verif_malloc(a)
#define calloc(a, b) verif_calloc(a, b)
#define realloc(a, b) verif_realloc(a, b)
#define strdup(a) verif_strdup(a)

int verif_pipe(int fds[2]);
int verif_close(int fd);
ssize_t verif_read(int fd, void *buf, size_t n);
ssize_t verif_write(int fd, const void *buf, size_t n);
int verif_poll(struct pollfd *fds, nfds_t nfds, int timeout);
int verif_dup2(int oldfd, int newfd);
pid_t verif_fork(void);
pid_t verif_waitpid(pid_t pid, int *wstatus, int options);
int verif_kill(pid_t pid, int sig);
int verif_execvp(const char *file, char *const argv[]);
void verif__exit(int code);
int verif_chdir(const char *path);
char *verif_getcwd(char *buf, size_t size);
int verif_getrlimit(int resource, struct rlimit *rl);
int verif_sigfillset(sigset_t *set);
int verif_sigemptyset(sigset_t *set);
int verif_pthread_sigmask(int how, const sigset_t *set, sigset_t *oldset);
int verif_sigprocmask(int how, const sigset_t *set, sigset_t *oldset);
int verif_sigaction(int sig, const struct sigaction *act, struct sigaction *old);
int verif_clock_gettime(clockid_t clk, struct timespec *ts);
int verif_fileno(FILE *f);
void *verif_malloc(size_t n);
void *verif_calloc(size_t n, size_t m);
void *verif_realloc(void *p, size_t n);
char *verif_strdup(const char *s);

/* Loop contracts attached through /repo's REPROC_VERIF_LOOP(name) hooks
   (macro.h, guard REPROC_VERIF). Only harnesses built with
   -DVERIF_LOOP_CONTRACTS (and goto-instrument --apply-loop-contracts) use them;
   everywhere else, and in the native replay, the hooks expand to nothing. */
#if defined(VERIF_LOOP_CONTRACTS) && !defined(VERIF_NATIVE)
/* setup_input: the k-th write continues at data + written; nothing sleeps;
   a failing write leaves the loop at once */
#define REPROC_VERIF_LOOP_setup_input                                          \
  __CPROVER_assigns(written, r, g.e, g.wl, g.may_block, g.stream_pos, g.in_fd)   \
  __CPROVER_loop_invariant(written <= size && g.stream_pos == written &&       \
                           g.may_block == __CPROVER_loop_entry(g.may_block) && \
                           g.e.faults == __CPROVER_loop_entry(g.e.faults) &&       \
                           g.e.err == __CPROVER_loop_entry(g.e.err) &&             \
                           g.e.first_errno == __CPROVER_loop_entry(g.e.first_errno) && \
                           g.e.last_fault == __CPROVER_loop_entry(g.e.last_fault) && \
                           g.e.os_calls >= __CPROVER_loop_entry(g.e.os_calls) &&   \
                           (written == 0 ? g.in_fd == -1 : g.in_fd == *pipe))                 \
  __CPROVER_decreases(size - written)
/* close-all loop of process_fork (child side): everything below i that is not
   kept is closed; everything kept, and everything from i on, is as it was */
#define VERIF_KEEP_MASK (MASK_OF(except[0]) | MASK_OF(except[1]) | MASK_OF(except[2]) | MASK_OF(except[3]) | MASK_OF(except[4]) | MASK_OF(except[5]) | MASK_OF(pipe.read) | MASK_OF(pipe.write))
#define VERIF_OBJ_KEPT(k) (!FD_OK(except[k]) || g.fds.obj[except[k] & 31] == __CPROVER_loop_entry(g.fds.obj[except[k] & 31]))
#define VERIF_LOW(n) ((n) >= 32 ? 0xffffffffu : ((1u << (n)) - 1u))
#define REPROC_VERIF_LOOP_close_all                                            \
  __CPROVER_assigns(i, r, g.e, g.fds)                                            \
  __CPROVER_loop_invariant(0 <= i && i <= max_fd + 1 &&                        \
                           (g.fds.open & VERIF_LOW(i) & ~VERIF_KEEP_MASK) == 0 &&  \
                           (g.fds.open & (VERIF_KEEP_MASK | ~VERIF_LOW(i))) ==     \
                               (__CPROVER_loop_entry(g.fds.open) & (VERIF_KEEP_MASK | ~VERIF_LOW(i))) && \
                           (g.fds.cloexec & VERIF_KEEP_MASK) == (__CPROVER_loop_entry(g.fds.cloexec) & VERIF_KEEP_MASK) && \
                           (g.fds.rd & VERIF_KEEP_MASK) == (__CPROVER_loop_entry(g.fds.rd) & VERIF_KEEP_MASK) && \
                           (g.fds.wr & VERIF_KEEP_MASK) == (__CPROVER_loop_entry(g.fds.wr) & VERIF_KEEP_MASK) && \
                           VERIF_OBJ_KEPT(0) && VERIF_OBJ_KEPT(1) && VERIF_OBJ_KEPT(2) && \
                           VERIF_OBJ_KEPT(3) && VERIF_OBJ_KEPT(4) && VERIF_OBJ_KEPT(5) && \
                           g.e.faults == __CPROVER_loop_entry(g.e.faults) && \
                           g.e.first_errno == __CPROVER_loop_entry(g.e.first_errno) && \
                           g.e.last_fault == __CPROVER_loop_entry(g.e.last_fault) && \
                           g.e.err >= 0 && g.e.err < 134 && g.e.os_calls >= __CPROVER_loop_entry(g.e.os_calls)) \
  __CPROVER_decreases(max_fd + 1 - (long) i)
/* reproc_drain: the loop invariant is checked by induction written out in C
   (harness/h_drain.c: verif_drain_head asserts it on entry, havocs everything
   the loop may change, assumes it, and after one arbitrary iteration asserts it
   again): DFCC's loop-contract instrumentation of this loop did not finish.
   No variant: termination of drain depends on the child. */
#endif
#if defined(VERIF_DRAIN_INDUCTION) && !defined(VERIF_NATIVE)
#define REPROC_VERIF_LOOP_drain if (verif_drain_head(&r, buffer, process))
#endif
#ifndef REPROC_VERIF_LOOP_setup_input
#define REPROC_VERIF_LOOP_setup_input
#endif
#ifndef REPROC_VERIF_LOOP_close_all
#define REPROC_VERIF_LOOP_close_all
#endif
#ifndef REPROC_VERIF_LOOP_drain
#define REPROC_VERIF_LOOP_drain
#endif

/* the three standard FILE objects and one user FILE object, by identity */
extern FILE verif_files[4];
#undef stdin
#undef stdout
#undef stderr
#define stdin (&verif_files[0])
#define stdout (&verif_files[1])
#define stderr (&verif_files[2])
#define VERIF_USER_FILE (&verif_files[3])

#endif
