/* statics of options.c are inlined into parse_options; no separate contract */
