/* Representation invariant of reproc_t (DESIGN.md §2.4) and the contracts of the
 * functions of reproc.c. Included by harnesses AFTER `#include "reproc.c"`, where
 * struct reproc_t is complete. */
#ifndef VERIF_STATIC_REPROC_H
#define VERIF_STATIC_REPROC_H

#define ST_NOT_STARTED (-1)
#define ST_IN_PROGRESS (-2)
#define ST_IN_CHILD (-3)

#define PIPE_WF(fd) (B((fd) == -1) | (IS_OPEN(fd) & IS_LIB(fd)))
#define NE_OR_INVALID(a, b) (B((a) == -1) | B((a) != (b)))
#define PIPES_DISTINCT(p)                                                      \
  (NE_OR_INVALID((p)->pipe.in, (p)->pipe.out) & NE_OR_INVALID((p)->pipe.in, (p)->pipe.err) & \
   NE_OR_INVALID((p)->pipe.in, (p)->pipe.exit) & NE_OR_INVALID((p)->pipe.out, (p)->pipe.err) & \
   NE_OR_INVALID((p)->pipe.out, (p)->pipe.exit) & NE_OR_INVALID((p)->pipe.err, (p)->pipe.exit))
#define PIPES_ALL_INVALID(p)                                                   \
  (B((p)->pipe.in == -1) & B((p)->pipe.out == -1) & B((p)->pipe.err == -1) & B((p)->pipe.exit == -1))
#define PARENT_MASK(p)                                                         \
  (MASK_OF((p)->pipe.in) | MASK_OF((p)->pipe.out) | MASK_OF((p)->pipe.err) | MASK_OF((p)->pipe.exit))
#define NB_CONSISTENT(p, fd)                                                   \
  (B((fd) == -1) | B(((g.fds.nonblock & MASK_OF(fd)) != 0) == (p)->nonblocking))
/* a deadline is now + (int) option, on a clock > 2^32 that never goes back */
#define DEADLINE_WF(p)                                                         \
  (B((p)->deadline == -1) |                                                    \
   (B((p)->deadline > ((int64_t) 1 << 31)) &                                  \
    (B((p)->deadline <= g.now) | B((uint64_t) (p)->deadline - (uint64_t) g.now <= 0x7fffffffULL))))

/* the representation invariant of reproc_t (DESIGN.md §2.4); branch-free */
#define INV(p)                                                                 \
  ((B((p)->status >= -3) & PIPE_WF((p)->pipe.in) & PIPE_WF((p)->pipe.out) &    \
    PIPE_WF((p)->pipe.err) & PIPE_WF((p)->pipe.exit) & PIPES_DISTINCT(p) &     \
    B((p)->child.out == -1) & B((p)->child.err == -1) & DEADLINE_WF(p) &       \
    NB_CONSISTENT(p, (p)->pipe.in) & NB_CONSISTENT(p, (p)->pipe.out) &         \
    NB_CONSISTENT(p, (p)->pipe.err) &                                          \
    IMPL((p)->status == ST_NOT_STARTED,                                        \
         B((p)->handle == -1) & PIPES_ALL_INVALID(p) & B((p)->deadline == -1)) & \
    IMPL((p)->status == ST_IN_CHILD, B((p)->handle == -1) & PIPES_ALL_INVALID(p)) & \
    IMPL((p)->status == ST_IN_PROGRESS,                                        \
         B((p)->handle > 0) & B((p)->handle == g.child_pid) & B(g.child_live) & \
             B(!g.child_reaped) & B(g.reaps == 0) & B((p)->pipe.exit != -1)) & \
    IMPL((p)->status >= 0,                                                     \
         B((p)->handle > 0) & B((p)->handle == g.child_pid) & B(g.child_reaped) & \
             B(!g.child_live) & B(g.reaps == 1) &                              \
             B((p)->status == WST_DECODE(g.child_wstatus)) & B((p)->pipe.exit == -1))) != 0)

#define P0(f) OLD(process->f)
#define STARTED0 (process != NULL && (P0(status) == ST_IN_PROGRESS || P0(status) >= 0))
#define RUNNING0 (process != NULL && P0(status) == ST_IN_PROGRESS)
#define EXITED0 (process != NULL && P0(status) >= 0)
#define MISUSE0 (process == NULL || P0(status) == ST_NOT_STARTED || P0(status) == ST_IN_CHILD)
#define OS_UNTOUCHED (g.e.os_calls == OLD(g.e.os_calls) && g.fds.open == OLD(g.fds.open) && g.fds.lib == OLD(g.fds.lib) && g.nsig == OLD(g.nsig) && g.reaps == OLD(g.reaps))
#define HANDLE_FIELDS_KEPT_EXCEPT_STATUS_EXIT                                  \
  (process->handle == P0(handle) && process->pipe.in == P0(pipe.in) &&         \
   process->pipe.out == P0(pipe.out) && process->pipe.err == P0(pipe.err) &&   \
   process->deadline == P0(deadline) && process->nonblocking == P0(nonblocking) && \
   process->child.out == P0(child.out) && process->child.err == P0(child.err))
#define HANDLE_UNCHANGED                                                       \
  (HANDLE_FIELDS_KEPT_EXCEPT_STATUS_EXIT && process->status == P0(status) &&   \
   process->pipe.exit == P0(pipe.exit))

/* ------------------------------------------------------------------------- */

CONTRACT(expiry)
static int expiry(int timeout, int64_t deadline)
  REQ_(timeout >= -1)
  REQ_(deadline == -1 || (deadline > ((int64_t) 1 << 31) && deadline - g.now <= 0x7fffffffLL))
  ASSIGNS(g.now, g.e.os_calls)
  ENS("C08/expiry.no_deadline_is_timeout", IMPLIES(deadline == -1, RV == timeout && g.now == OLD(g.now)))
  ENS("C08/expiry.expired_deadline", IMPLIES(deadline != -1 && g.now >= deadline, RV == -2))
  ENS("C08/expiry.min_of_timeout_and_remaining", IMPLIES(deadline != -1 && g.now < deadline, RV == ((timeout == -1 || deadline - g.now < timeout) ? (int) (deadline - g.now) : timeout)))
  ENS("C08/expiry.clock_monotone", g.now >= OLD(g.now))
  ;

/* Start-up input (C02, C17): every byte is handed to the kernel in order on the
   stdin pipe (the cursor is checked inside the write contract), the pipe is
   non-blocking before the first byte, and is closed afterwards so that the
   child sees end-of-file. On failure the pipe is left to the caller. */
CONTRACT(setup_input)
static int setup_input(pipe_type *pipe, const uint8_t *data, size_t size)
  REQ("C13/setup_input.size_needs_data", data != NULL || size == 0)
  REQ("C02/setup_input.pipe_is_open_library_pipe", data == NULL || (pipe != NULL && IS_OPEN(*pipe) && IS_LIB(*pipe)))
  REQ_(data == NULL || (gc.in_data == data && gc.in_size == size && g.stream_pos == 0 && g.in_fd == -1))
  ASSIGNS(data != NULL: *pipe; G_FD, G_ERR, G_WR)
  ENS("C14/setup_input.error_ghost_sane", G_ERR_SANE)
  ENS("C02/setup_input.no_input_no_effect", IMPLIES(data == NULL, RV == 0 && g.e.os_calls == OLD(g.e.os_calls) && FD_LEDGER_UNCHANGED))
  ENS("C02/setup_input.all_bytes_written_in_order", IMPLIES(data != NULL && RV == 0, g.stream_pos == size))
  ENS("C02/setup_input.written_to_stdin_pipe", IMPLIES(data != NULL && g.stream_pos > 0, g.in_fd == OLD(*pipe)))
  ENS("C02+INV/setup_input.stdin_closed_after_input", IMPLIES(data != NULL && RV == 0, *pipe == -1 && g.fds.open == (OLD(g.fds.open) & ~MASK_OF(OLD(*pipe))) && g.fds.lib == (OLD(g.fds.lib) & ~MASK_OF(OLD(*pipe)))))
  ENS("C05/setup_input.failure_leaves_pipe_to_caller", IMPLIES(data != NULL && RV != 0, *pipe == OLD(*pipe) && FD_LEDGER_UNCHANGED))
  ENS("C17/setup_input.never_blocks", g.may_block == OLD(g.may_block))
  ENS("C04/setup_input.success_has_no_failed_call", IMPLIES(RV == 0, g.e.faults == OLD(g.e.faults)))
  ENS("C04/setup_input.zero_or_first_failure", RV <= 0 && IMPLIES(RV < 0, g.e.faults > OLD(g.e.faults) && IMPLIES(OLD(g.e.faults) == 0, RV == -g.e.first_errno)))
  ENS("C14/setup_input.other_descriptors_untouched", FD_FRAME_EXCEPT((data != NULL) ? MASK_OF(OLD(*pipe)) : 0u))
  ;

/* ---- poll family (C08, C09): bounded in the number of sources (VERIF_NSRC) ---- */
#ifndef VERIF_NSRC
#define VERIF_NSRC 2
#endif
/* what reproc_poll needs of each source's handle */
#define INV_POLL(p)                                                            \
  ((PIPE_WF((p)->pipe.in) & PIPE_WF((p)->pipe.out) & PIPE_WF((p)->pipe.err) &  \
    PIPE_WF((p)->pipe.exit) & B((p)->child.out == -1) & B((p)->child.err == -1) & DEADLINE_WF(p)) != 0)
#define SRC_OK(k) ((k) >= num_sources || sources[k].process == NULL || INV_POLL(sources[k].process))
/* the fourth source exists only in the thorough-tier instance (VERIF_NSRC == 4) */
#if VERIF_NSRC >= 4
#define AND_K3(e) && (e)
#define OR_K3(e) || (e)
#define PLUS_K3(e) + (e)
#else
#define AND_K3(e)
#define OR_K3(e)
#define PLUS_K3(e)
#endif
#define SRCS_OK (sources != NULL && num_sources >= 1 && num_sources <= VERIF_NSRC && SRC_OK(0) && SRC_OK(1) && SRC_OK(2) AND_K3(SRC_OK(3)))
#define HAS_DL(k) ((k) < num_sources && sources[k].process != NULL && sources[k].process->deadline != -1)
#define DL(k) (sources[k].process->deadline)
/* for all k: phi(k) (explicit conjunction up to the bound) */
#if VERIF_NSRC >= 3
#define ALL_K(phi) (phi(0) && phi(1) && phi(2) AND_K3(phi(3)))
#define ANY_K(phi) (phi(0) || phi(1) || phi(2) OR_K3(phi(3)))
#elif VERIF_NSRC == 2
#define ALL_K(phi) (phi(0) && phi(1))
#define ANY_K(phi) (phi(0) || phi(1))
#else
#define ALL_K(phi) (phi(0))
#define ANY_K(phi) (phi(0))
#endif
#define EXPIRED_AT_ENTRY(k) (HAS_DL(k) && DL(k) <= OLD(g.now))
#define NOT_EXPIRED_NOW(k) (!HAS_DL(k) || DL(k) > g.now)
/* "the result r is such that phi(r)": case split instead of a symbolic index */
#define AT_RV(phi) ((RV == 0 && phi(0)) || (RV == 1 && phi(1)) || (RV == 2 && phi(2)) OR_K3(RV == 3 && phi(3)))
#define EXPIRED_NOW(k) (HAS_DL(k) && DL(k) <= g.now)
#define NOT_LATER_THAN_0(k) (!HAS_DL(k) || DL(0) <= DL(k))
#define NOT_LATER_THAN_1(k) (!HAS_DL(k) || DL(1) <= DL(k))
#define NOT_LATER_THAN_2(k) (!HAS_DL(k) || DL(2) <= DL(k))
#define NOT_LATER_THAN_3(k) (!HAS_DL(k) || DL(3) <= DL(k))
#if VERIF_NSRC >= 4
#define EARLIEST(r) (HAS_DL(r) && ((r) == 0 ? ALL_K(NOT_LATER_THAN_0) : (r) == 1 ? ALL_K(NOT_LATER_THAN_1) : (r) == 2 ? ALL_K(NOT_LATER_THAN_2) : ALL_K(NOT_LATER_THAN_3)))
#else
#define EARLIEST(r) (HAS_DL(r) && ((r) == 0 ? ALL_K(NOT_LATER_THAN_0) : (r) == 1 ? ALL_K(NOT_LATER_THAN_1) : ALL_K(NOT_LATER_THAN_2)))
#endif

CONTRACT(find_earliest_deadline)
static size_t find_earliest_deadline(reproc_event_source *sources, size_t num_sources)
  REQ_(sources != NULL && num_sources >= 1 && num_sources <= VERIF_NSRC)
  ASSIGNS(g.now, g.e.os_calls)
  ENS("C08/find_earliest_deadline.index_in_range", RV < num_sources)
  ENS("C08/find_earliest_deadline.clock_monotone", g.now >= OLD(g.now))
  ;

#define EV_IN 1
#define EV_OUT 2
#define EV_ERR 4
#define EV_EXIT 8
#define EV_DEADLINE 16
#define SRC(k) (sources[k])
#define IN_RANGE(k) ((k) < num_sources)
#define HASP(k) (IN_RANGE(k) && SRC(k).process != NULL)
/* the pipe polled in slot 4k+j (or -1): stdin for IN, stdout for OUT, stderr for ERR, exit pipe for EXIT */
/* (branch-free: selected ? pipe : -1  ==  selected * (pipe + 1) - 1) */
#define SEL(k, bit, fd) ((int) B(SRC(k).interests & (bit)) * ((fd) + 1) - 1)
#define SLOT_PIPE(k, j) ((j) == 0 ? SEL(k, EV_IN, SRC(k).process->pipe.in) \
                       : (j) == 1 ? SEL(k, EV_OUT, SRC(k).process->pipe.out) \
                       : (j) == 2 ? SEL(k, EV_ERR, SRC(k).process->pipe.err) \
                                  : SEL(k, EV_EXIT, SRC(k).process->pipe.exit))
#define VALID_ANY(k) (HASP(k) && (B(SLOT_PIPE(k, 0) != -1) | B(SLOT_PIPE(k, 1) != -1) | B(SLOT_PIPE(k, 2) != -1) | B(SLOT_PIPE(k, 3) != -1)) != 0)
#define EVBIT(k, j) (SLOT_PIPE(k, j) != -1 && g.pl.poll_rev[4 * (k) + (j)] > 0)
#define EV_EXPECT(k) (!HASP(k) ? 0 : ((EVBIT(k, 0) ? EV_IN : 0) | (EVBIT(k, 1) ? EV_OUT : 0) | (EVBIT(k, 2) ? EV_ERR : 0) | (EVBIT(k, 3) ? EV_EXIT : 0)))
#define EV_IS_EXPECTED(k) (!IN_RANGE(k) || SRC(k).events == EV_EXPECT(k))
#define EV_ZERO(k) (!IN_RANGE(k) || SRC(k).events == 0)
#define EV_NONZERO(k) (IN_RANGE(k) && SRC(k).events != 0)
#define EV_COUNT ((EV_NONZERO(0) ? 1 : 0) + (EV_NONZERO(1) ? 1 : 0) + (EV_NONZERO(2) ? 1 : 0) PLUS_K3(EV_NONZERO(3) ? 1 : 0))
#define EV_SUBSET(k) (!IN_RANGE(k) || (B((SRC(k).events & ~((SRC(k).interests & 15) | EV_DEADLINE)) == 0) & (B(SRC(k).process != NULL) | B(SRC(k).events == 0))) != 0)
#define EV_ONLY_VALID(k) (!HASP(k) || (IMPL(SRC(k).events & EV_IN, SRC(k).process->pipe.in != -1) & IMPL(SRC(k).events & EV_OUT, SRC(k).process->pipe.out != -1) & IMPL(SRC(k).events & EV_ERR, SRC(k).process->pipe.err != -1) & IMPL(SRC(k).events & EV_EXIT, SRC(k).process->pipe.exit != -1)) != 0)
#define ONLY_DEADLINE_ON(r) (IN_RANGE(r) && SRC(r).events == EV_DEADLINE && ((r) == 0 || EV_ZERO(0)) && ((r) == 1 || EV_ZERO(1)) && ((r) == 2 || EV_ZERO(2)) AND_K3((r) == 3 || EV_ZERO(3)))
#define ONLY_DEADLINE_ON_EXPIRED(r) (ONLY_DEADLINE_ON(r) && EXPIRED_NOW(r))
#define ONLY_DEADLINE_ON_EARLIEST(r) (ONLY_DEADLINE_ON(r) && EARLIEST(r))
#define SOME_R(phi) (phi(0) || phi(1) || phi(2) OR_K3(phi(3)))
#define SLOTS_AS_ASKED(k) (!IN_RANGE(k) || (g.pl.poll_fdv[4 * (k)] == (HASP(k) ? SLOT_PIPE(k, 0) : -1) && g.pl.poll_fdv[4 * (k) + 1] == (HASP(k) ? SLOT_PIPE(k, 1) : -1) && g.pl.poll_fdv[4 * (k) + 2] == (HASP(k) ? SLOT_PIPE(k, 2) : -1) && g.pl.poll_fdv[4 * (k) + 3] == (HASP(k) ? SLOT_PIPE(k, 3) : -1) && IMPLIES(HASP(k), g.pl.poll_evv[4 * (k)] == POLLOUT && g.pl.poll_evv[4 * (k) + 1] == POLLIN && g.pl.poll_evv[4 * (k) + 2] == POLLIN && g.pl.poll_evv[4 * (k) + 3] == POLLIN)))
/* the timeout handed to poll: the smaller of `timeout` and the time left until
   the earliest deadline (INFINITE counts as larger than everything) */
#define T_WITH_DEADLINE(d) ((timeout == -1 || (d) - g.pl.poll_at < timeout) ? (int) ((d) - g.pl.poll_at) : timeout)
#define POLL_TIMEOUT_FOR(r) (!EARLIEST(r) || g.pl.poll_timeout == T_WITH_DEADLINE(DL(r)))
#define POLLED (g.pl.poll_calls == OLD(g.pl.poll_calls) + 1)
#define KEPT(k) (!IN_RANGE(k) || (SRC(k).process == OLD(SRC(k).process) && SRC(k).interests == OLD(SRC(k).interests)))

/* The clauses below are what callers (reproc_drain) rely on. The statements that
   need a walk over all sources - which deadline is earliest, which timeout
   reaches poll, which events are reported for which kernel answer - are
   postconditions in executable form in harness/h_poll.c (labels C08/poll.*,
   C09/poll.*), checked on the same enforced call. */
CONTRACT(reproc_poll)
int reproc_poll(reproc_event_source *sources, size_t num_sources, int timeout)
  REQ_(timeout >= -1 && num_sources <= VERIF_NSRC)
  ASSIGNS(sources != NULL: __CPROVER_object_whole(sources); G_ERR, G_POLL)
  ENS("C14/reproc_poll.error_ghost_sane", G_ERR_SANE && g.now >= OLD(g.now) && g.now - OLD(g.now) <= 8 * 0x7fffffffLL)
  ENSX("C14/reproc_poll.misuse_is_einval", IMPLIES(sources == NULL || num_sources == 0, RV == -EINVAL && OS_UNTOUCHED))
  ENS("C09/reproc_poll.sources_not_rewritten", IMPLIES(sources != NULL && num_sources != 0, ALL_K(KEPT)))
  ENS("C09/reproc_poll.epipe_only_if_nothing_can_be_polled", IMPLIES(sources != NULL && num_sources != 0 && RV == -EPIPE, !ANY_K(VALID_ANY) && g.pl.poll_calls == OLD(g.pl.poll_calls)))
  ENS("C09/reproc_poll.events_subset_of_interests", IMPLIES(sources != NULL && num_sources != 0 && RV >= 0, ALL_K(EV_SUBSET)))
  ENS("C09/reproc_poll.stream_events_only_for_streams_that_can_be_polled", IMPLIES(sources != NULL && num_sources != 0 && RV >= 0, ALL_K(EV_ONLY_VALID)))
  ENS("C08/reproc_poll.infinite_timeout_returns_with_an_event", IMPLIES(sources != NULL && num_sources != 0 && timeout == -1 && RV >= 0, RV >= 1))
  ENSX("C09/reproc_poll.result_counts_sources_with_events", IMPLIES(sources != NULL && num_sources != 0 && RV >= 0, RV == EV_COUNT))
  ENSX("C04/reproc_poll.errors", IMPLIES(sources != NULL && num_sources != 0 && RV < 0 && RV != -EPIPE, g.e.faults > OLD(g.e.faults) && IMPLIES(OLD(g.e.faults) == 0, RV == -g.e.first_errno)))
  ENS("C05/reproc_poll.ledger_unchanged", g.fds.open == OLD(g.fds.open) && g.fds.lib == OLD(g.fds.lib))
  ;

/* reproc_start (C04, C05, C06, C10, C12, C13, C14). */
#define ARGV_NULL (argv == NULL)
#define ARGV0_OK (argv != NULL && argv[0] != NULL)
#define START_CALLABLE (process != NULL && P0(status) == ST_NOT_STARTED)
#define START_VALID OPT_ALLOWED(options, ARGV_NULL, ARGV0_OK)
#define WANT_PIPE_IN (OPT_EFF_IN(options) == RT_PIPE && options.input.data == NULL)
#define WANT_PIPE_OUT (OPT_EFF_OUT(options) == RT_PIPE)
#define WANT_PIPE_ERR (OPT_EFF_ERR(options) == RT_PIPE)

CONTRACT(reproc_start)
int reproc_start(reproc_t *process, const char *const *argv, reproc_options options)
  REQ("C14/reproc_start.handle_invariant", process == NULL || INV(process))
  ASSIGNS(process != NULL: *process; g; environ)
  ENS("C14/reproc_start.misuse_is_einval", IMPLIES(!START_CALLABLE, RV == -EINVAL && OS_UNTOUCHED && IMPLIES(process != NULL, HANDLE_UNCHANGED)))
  ENS("C13/reproc_start.invalid_options_rejected_before_any_side_effect", IMPLIES(START_CALLABLE && OPT_REJECT(options, ARGV_NULL, ARGV0_OK), RV == -EINVAL && g.e.os_calls == OLD(g.e.os_calls) && g.fds.open == OLD(g.fds.open) && g.fds.lib == OLD(g.fds.lib) && g.child_pid == OLD(g.child_pid) && HANDLE_UNCHANGED))
  ENS("C14/reproc_start.invariant_kept", IMPLIES(process != NULL && !g.in_child, INV(process)))
  ENS("C04+C08+C15/reproc_start.failure_leaves_handle_not_started", IMPLIES(START_CALLABLE && RV < 0 && !g.in_child, process->status == ST_NOT_STARTED && process->handle == -1 && PIPES_ALL_INVALID(process) && process->deadline == -1))
  ENS("C04+C05+C06/reproc_start.failure_leaves_no_child", IMPLIES(START_CALLABLE && RV < 0 && !g.in_child, !g.child_live && (g.child_pid == 0 || g.child_reaped)))
  ENS("C05/reproc_start.failure_leaves_no_descriptor", IMPLIES(START_CALLABLE && RV < 0 && !g.in_child, g.fds.open == OLD(g.fds.open) && g.fds.lib == OLD(g.fds.lib)))
  ENS("C04/reproc_start.failure_is_real_cause", IMPLIES(START_CALLABLE && RV < 0 && !g.in_child && START_VALID && OLD(g.e.faults) == 0, (g.e.faults > 0 && RV == -g.e.first_errno) || ((g.child_fate == FATE_FAILED_EARLY || g.child_fate == FATE_FAILED_LATE) && RV == -g.child_fate_errno)))
  ENS("C04+C06/reproc_start.success_is_running_child_that_executed", IMPLIES(START_CALLABLE && RV > 0, !g.in_child && process->status == ST_IN_PROGRESS && process->handle == g.child_pid && process->handle > 0 && g.child_live && !g.child_reaped && g.child_fate == FATE_EXECED))
  ENS("C10/reproc_start.parent_gets_a_pipe_end_exactly_for_piped_streams", IMPLIES(START_CALLABLE && RV > 0 && OPT_TYPES_IN_RANGE(options), (process->pipe.in != -1) == WANT_PIPE_IN && (process->pipe.out != -1) == WANT_PIPE_OUT && (process->pipe.err != -1) == WANT_PIPE_ERR && process->pipe.exit != -1))
  ENS("C02+C05/reproc_start.childs_ends_closed_in_parent", IMPLIES(START_CALLABLE && RV > 0, g.fds.open == (OLD(g.fds.open) | PARENT_MASK(process)) && g.fds.lib == (OLD(g.fds.lib) | PARENT_MASK(process)) && (OLD(g.fds.open) & PARENT_MASK(process)) == 0))
  ENS("C17/reproc_start.pipe_mode_is_the_option", IMPLIES(START_CALLABLE && RV > 0, process->nonblocking == options.nonblocking))
  ENS("C15/reproc_start.stop_policy_stored", IMPLIES(START_CALLABLE && RV > 0, STOP_PARSED(process->stop, options.stop)))
  ENS("C08/reproc_start.deadline_is_now_plus_option", IMPLIES(START_CALLABLE && RV > 0, (options.deadline == 0 || options.deadline == -1) ? process->deadline == -1 : process->deadline == g.now + options.deadline))
  ENS("C14/reproc_start.fork_mode_child_handle", IMPLIES(START_CALLABLE && RV == 0, g.in_child && options.fork && process->status == ST_IN_CHILD && process->handle == -1 && PIPES_ALL_INVALID(process)))
  ENS("C12/reproc_start.caller_state_untouched", IMPLIES(!g.in_child, g.sigmask == OLD(g.sigmask) && g.disp_default == OLD(g.disp_default) && g.cwd_id == OLD(g.cwd_id) && environ == OLD(environ)))
  ENS("C06/reproc_start.sends_no_signal", g.nsig == OLD(g.nsig) && g.kill_calls == OLD(g.kill_calls))
  ;

CONTRACT(reproc_wait)
int reproc_wait(reproc_t *process, int timeout)
  REQ("C14/reproc_wait.handle_invariant", process == NULL || INV(process))
  ASSIGNS(process != NULL: *process; g)
  ENS("C14/reproc_wait.misuse_is_einval", IMPLIES(MISUSE0, RV == -EINVAL && OS_UNTOUCHED))
  ENS("C14/reproc_wait.invariant_kept", IMPLIES(process != NULL, INV(process)))
  ENS("C01/reproc_wait.cached_status_is_stable", IMPLIES(EXITED0, RV == P0(status) && OS_UNTOUCHED && HANDLE_UNCHANGED))
  ENS("C01/reproc_wait.status_is_exact_and_reaped_once", IMPLIES(RUNNING0 && RV >= 0, process->status == RV && RV == WST_DECODE(g.child_wstatus) && g.child_reaped && g.reaps == 1 && process->pipe.exit == -1))
  ENS("C01/reproc_wait.error_means_still_running_handle", IMPLIES(RUNNING0 && RV < 0, process->status == ST_IN_PROGRESS && !g.child_reaped && process->pipe.exit == P0(pipe.exit)))
  ENS("C01/reproc_wait.reap_only_after_exit_seen", IMPLIES(g.wait_calls != OLD(g.wait_calls), g.wait_calls == OLD(g.wait_calls) + 1 && g.pl.poll_ret > 0 && (g.pl.poll_ready & MASK_OF(P0(pipe.exit))) != 0))
  ENS("C06+C07/reproc_wait.sends_no_signal", g.nsig == OLD(g.nsig) && g.kill_calls == OLD(g.kill_calls))
  ENS("C05/reproc_wait.closes_only_exit_pipe_once_reaped", g.fds.open == (OLD(g.fds.open) & ~((RUNNING0 && RV >= 0) ? MASK_OF(P0(pipe.exit)) : 0u)) && g.fds.lib == (OLD(g.fds.lib) & ~((RUNNING0 && RV >= 0) ? MASK_OF(P0(pipe.exit)) : 0u)))
  ENS("C14/reproc_wait.other_fields_kept", IMPLIES(process != NULL, HANDLE_FIELDS_KEPT_EXCEPT_STATUS_EXIT))
  ENS("C08/reproc_wait.at_most_one_poll_on_exit_pipe", IMPLIES(RUNNING0, g.pl.poll_calls <= OLD(g.pl.poll_calls) + 1 && IMPLIES(g.pl.poll_calls != OLD(g.pl.poll_calls), g.pl.poll_fds == MASK_OF(P0(pipe.exit)))))
  ENS("C08/reproc_wait.timeout_only_after_full_timeout", IMPLIES(RUNNING0 && RV == -ETIMEDOUT, g.pl.poll_ret == 0 && (timeout >= 0 || timeout == -2) && IMPLIES(timeout >= 0, g.pl.poll_timeout == timeout && g.now - OLD(g.now) >= timeout)))
  ENS("C08/reproc_wait.until_deadline_waits_exactly_until_deadline", IMPLIES(RUNNING0 && timeout == -2 && g.pl.poll_calls != OLD(g.pl.poll_calls), g.pl.poll_timeout == (P0(deadline) == -1 ? -1 : P0(deadline) > g.pl.poll_at ? (int) (P0(deadline) - g.pl.poll_at) : 0)))
  ENS("C08/reproc_wait.until_deadline_timeout_means_deadline_passed", IMPLIES(RUNNING0 && timeout == -2 && RV == -ETIMEDOUT, P0(deadline) != -1 && g.now >= P0(deadline)))
  ENS("C08/reproc_wait.other_timeouts_passed_through", IMPLIES(RUNNING0 && timeout != -2 && g.pl.poll_calls != OLD(g.pl.poll_calls), g.pl.poll_timeout == timeout))
  ENS("C04/reproc_wait.error_is_first_failure", IMPLIES(RUNNING0 && RV < 0 && RV != -ETIMEDOUT && OLD(g.e.faults) == 0, g.e.faults > 0 && RV == -g.e.first_errno))
  ;

CONTRACT(reproc_terminate)
int reproc_terminate(reproc_t *process)
  REQ("C14/reproc_terminate.handle_invariant", process == NULL || INV(process))
  ASSIGNS(g)
  ENS("C14/reproc_terminate.misuse_is_einval", IMPLIES(MISUSE0, RV == -EINVAL && OS_UNTOUCHED))
  ENS("C06/reproc_terminate.after_exit_sends_nothing", IMPLIES(EXITED0, RV == 0 && OS_UNTOUCHED))
  ENS("C07/reproc_terminate.sends_sigterm_once", IMPLIES(RUNNING0, g.kill_calls == OLD(g.kill_calls) + 1 && IMPLIES(RV == 0, g.nsig == OLD(g.nsig) + 1 && IMPLIES(OLD(g.nsig) < 4, g.sig_log[OLD(g.nsig)] == SIGTERM))))
  ENS("C07/reproc_terminate.failure_sends_nothing", IMPLIES(RUNNING0 && RV != 0, RV < 0 && RV == -g.e.err && g.nsig == OLD(g.nsig)))
  ENS("C14/reproc_terminate.invariant_kept", IMPLIES(process != NULL, INV(process)))
  ENS("C14/reproc_terminate.handle_and_ledger_unchanged", IMPLIES(process != NULL, HANDLE_UNCHANGED && INV(process)) && g.fds.open == OLD(g.fds.open) && g.fds.lib == OLD(g.fds.lib) && g.reaps == OLD(g.reaps) && g.wait_calls == OLD(g.wait_calls) && g.pl.poll_calls == OLD(g.pl.poll_calls))
  ;

CONTRACT(reproc_kill)
int reproc_kill(reproc_t *process)
  REQ("C14/reproc_kill.handle_invariant", process == NULL || INV(process))
  ASSIGNS(g)
  ENS("C14/reproc_kill.misuse_is_einval", IMPLIES(MISUSE0, RV == -EINVAL && OS_UNTOUCHED))
  ENS("C06/reproc_kill.after_exit_sends_nothing", IMPLIES(EXITED0, RV == 0 && OS_UNTOUCHED))
  ENS("C07/reproc_kill.sends_sigkill_once", IMPLIES(RUNNING0, g.kill_calls == OLD(g.kill_calls) + 1 && IMPLIES(RV == 0, g.nsig == OLD(g.nsig) + 1 && IMPLIES(OLD(g.nsig) < 4, g.sig_log[OLD(g.nsig)] == SIGKILL))))
  ENS("C07/reproc_kill.failure_sends_nothing", IMPLIES(RUNNING0 && RV != 0, RV < 0 && RV == -g.e.err && g.nsig == OLD(g.nsig)))
  ENS("C14/reproc_kill.invariant_kept", IMPLIES(process != NULL, INV(process)))
  ENS("C14/reproc_kill.handle_and_ledger_unchanged", IMPLIES(process != NULL, HANDLE_UNCHANGED && INV(process)) && g.fds.open == OLD(g.fds.open) && g.fds.lib == OLD(g.fds.lib) && g.reaps == OLD(g.reaps) && g.wait_calls == OLD(g.wait_calls) && g.pl.poll_calls == OLD(g.pl.poll_calls))
  ;

CONTRACT(reproc_pid)
int reproc_pid(reproc_t *process)
  REQ("C14/reproc_pid.handle_invariant", process == NULL || INV(process))
  ASSIGNS()
  ENS("C14/reproc_pid.misuse_is_einval", IMPLIES(MISUSE0, RV == -EINVAL))
  ENS("C14/reproc_pid.is_the_childs_pid", IMPLIES(STARTED0, RV == process->handle && RV == g.child_pid && RV > 0))
  ;

#define PLAN_EXEMPT_EINVAL (gc.plan_invalid_at >= 0 && g.plan_pos == gc.plan_invalid_at)

/* reproc_stop: the OS-level steps are checked one by one by the stop-sequence
   monitor of the OS layer (labels C07/stop.*), armed by the harness with the
   plan computed from `stop` by an independent specification. */
CONTRACT(reproc_stop)
int reproc_stop(reproc_t *process, reproc_stop_actions stop)
  REQ("C14/reproc_stop.handle_invariant", process == NULL || INV(process))
  ASSIGNS(process != NULL: *process; g)
  ENS("C14/reproc_stop.misuse_is_einval", IMPLIES(MISUSE0, RV == -EINVAL && OS_UNTOUCHED))
  ENS("C14/reproc_stop.invariant_kept", IMPLIES(process != NULL, INV(process) && HANDLE_FIELDS_KEPT_EXCEPT_STATUS_EXIT))
  ENS("C01+C07/reproc_stop.status_iff_reaped", IMPLIES(STARTED0, IMPLIES(RV >= 0, g.child_reaped && g.reaps == 1 && RV == WST_DECODE(g.child_wstatus) && process->status == RV) && IMPLIES(g.child_reaped && !PLAN_EXEMPT_EINVAL, RV >= 0)))
  ENS("C01/reproc_stop.cached_status_is_stable", IMPLIES(EXITED0 && RV >= 0, RV == P0(status)) && IMPLIES(EXITED0, OS_UNTOUCHED && HANDLE_UNCHANGED))
  ENS("C07/reproc_stop.timeout_iff_every_wait_expired", IMPLIES(RUNNING0 && gc.plan_on, IMPLIES(RV == -ETIMEDOUT, !g.child_reaped && g.plan_pos == gc.plan_n && gc.plan_invalid_at < 0 && g.pl.poll_ret == 0) && IMPLIES(!g.child_reaped && g.plan_pos == gc.plan_n && gc.plan_n > 0 && gc.plan_invalid_at < 0 && g.pl.poll_ret == 0 && g.pl.poll_calls > OLD(g.pl.poll_calls), RV == -ETIMEDOUT)))
  ENS("C07/reproc_stop.otherwise_error_of_failed_action", IMPLIES(RUNNING0 && gc.plan_on && RV < 0 && RV != -ETIMEDOUT, (PLAN_EXEMPT_EINVAL && RV == -EINVAL) || (g.e.faults > OLD(g.e.faults) && IMPLIES(OLD(g.e.faults) == 0, RV == -g.e.first_errno))))
  ENS("C07/reproc_stop.out_of_range_action_is_einval", IMPLIES(RUNNING0 && gc.plan_on && PLAN_EXEMPT_EINVAL && g.e.faults == OLD(g.e.faults) && !g.child_reaped && (g.plan_pos == 0 || g.pl.poll_ret == 0), RV == -EINVAL))
  ENS("C05/reproc_stop.closes_only_exit_pipe_once_reaped", g.fds.open == (OLD(g.fds.open) & ~((RUNNING0 && g.child_reaped) ? MASK_OF(P0(pipe.exit)) : 0u)) && g.fds.lib == (OLD(g.fds.lib) & ~((RUNNING0 && g.child_reaped) ? MASK_OF(P0(pipe.exit)) : 0u)))
  ;

/* reproc_destroy (C15, C05): on a running handle the stop sequence given at
   start runs first (checked step by step by the stop-sequence monitor; the
   close contract refuses to release anything while the plan is unfinished), then
   every end the parent still holds is closed once and the handle is freed. */
#define PARENT_MASK0 (MASK_OF(P0(pipe.in)) | MASK_OF(P0(pipe.out)) | MASK_OF(P0(pipe.err)) | MASK_OF(P0(pipe.exit)))
#define STOP_RAN_TO_COMPLETION (g.child_reaped || g.e.faults > OLD(g.e.faults) || g.plan_pos >= gc.plan_n || (gc.plan_invalid_at >= 0 && g.plan_pos == gc.plan_invalid_at))

CONTRACT(reproc_destroy)
reproc_t *reproc_destroy(reproc_t *process)
  REQ("C14/reproc_destroy.handle_invariant", process == NULL || INV(process))
  ASSIGNS(process != NULL: *process; g)
  FREES(process)
  ENS("C15/reproc_destroy.returns_null", RV == NULL)
  ENS("C14+C15/reproc_destroy.null_is_noop", IMPLIES(process == NULL, OS_UNTOUCHED))
  ENS("C15/reproc_destroy.no_stop_unless_running", IMPLIES(process != NULL && P0(status) != ST_IN_PROGRESS, g.nsig == OLD(g.nsig) && g.kill_calls == OLD(g.kill_calls) && g.pl.poll_calls == OLD(g.pl.poll_calls) && g.wait_calls == OLD(g.wait_calls)))
  ENS("C15/reproc_destroy.running_child_gets_the_stop_policy", IMPLIES(RUNNING0 && gc.plan_on, STOP_RAN_TO_COMPLETION))
  ENS("C05+C15/reproc_destroy.every_parent_end_closed_once", IMPLIES(process != NULL && !g.in_child, g.fds.open == (OLD(g.fds.open) & ~PARENT_MASK0) && g.fds.lib == (OLD(g.fds.lib) & ~PARENT_MASK0)))
  ENS("C05/reproc_destroy.other_descriptors_untouched", FD_FRAME_EXCEPT(process != NULL ? PARENT_MASK0 : 0u))
  ;

CONTRACT(reproc_new)
reproc_t *reproc_new(void)
  ASSIGNS(G_ERR)
  ENS("C14/reproc_new.null_or_fresh_not_started_handle", RV == NULL || (__CPROVER_is_fresh(RV, sizeof(reproc_t)) && RV->status == ST_NOT_STARTED && INV(RV)))
  ENS("C04+C14/reproc_new.null_only_when_allocation_failed", IMPLIES(RV == NULL, g.e.faults > OLD(g.e.faults)))
  ;

CONTRACT(reproc_close)
int reproc_close(reproc_t *process, REPROC_STREAM stream)
  REQ("C14/reproc_close.handle_invariant", process == NULL || INV(process))
  ASSIGNS(process != NULL: *process; g)
  ENS("C14/reproc_close.misuse_is_einval", IMPLIES(process == NULL || P0(status) == ST_IN_CHILD, RV == -EINVAL && OS_UNTOUCHED))
  ENS("C14/reproc_close.bad_stream_is_einval", IMPLIES(process != NULL && P0(status) != ST_IN_CHILD && !(stream == REPROC_STREAM_IN || stream == REPROC_STREAM_OUT || stream == REPROC_STREAM_ERR), RV == -EINVAL && OS_UNTOUCHED && HANDLE_UNCHANGED))
  ENS("C02+C14/reproc_close.closes_exactly_that_stream", IMPLIES(process != NULL && P0(status) != ST_IN_CHILD && (stream == REPROC_STREAM_IN || stream == REPROC_STREAM_OUT || stream == REPROC_STREAM_ERR), RV == 0 && (stream == REPROC_STREAM_IN ? process->pipe.in : stream == REPROC_STREAM_OUT ? process->pipe.out : process->pipe.err) == -1 && g.fds.open == (OLD(g.fds.open) & ~MASK_OF(stream == REPROC_STREAM_IN ? P0(pipe.in) : stream == REPROC_STREAM_OUT ? P0(pipe.out) : P0(pipe.err))) && g.fds.lib == (OLD(g.fds.lib) & ~MASK_OF(stream == REPROC_STREAM_IN ? P0(pipe.in) : stream == REPROC_STREAM_OUT ? P0(pipe.out) : P0(pipe.err)))))
  ENS("C14/reproc_close.idempotent", IMPLIES(process != NULL && P0(status) != ST_IN_CHILD && (stream == REPROC_STREAM_IN ? P0(pipe.in) : stream == REPROC_STREAM_OUT ? P0(pipe.out) : stream == REPROC_STREAM_ERR ? P0(pipe.err) : -1) == -1, g.e.os_calls == OLD(g.e.os_calls)))
  ENS("C14/reproc_close.invariant_kept", IMPLIES(process != NULL, INV(process)))
  ENS("C14/reproc_close.other_fields_kept", IMPLIES(process != NULL, INV(process) && process->status == P0(status) && process->handle == P0(handle) && process->pipe.exit == P0(pipe.exit) && process->deadline == P0(deadline) && (stream == REPROC_STREAM_IN || process->pipe.in == P0(pipe.in)) && (stream == REPROC_STREAM_OUT || process->pipe.out == P0(pipe.out)) && (stream == REPROC_STREAM_ERR || process->pipe.err == P0(pipe.err))))
  ENS("C06/reproc_close.no_process_effect", g.nsig == OLD(g.nsig) && g.reaps == OLD(g.reaps) && g.kill_calls == OLD(g.kill_calls) && g.wait_calls == OLD(g.wait_calls))
  ;

#define RD_PIPE0 (stream == REPROC_STREAM_OUT ? P0(pipe.out) : P0(pipe.err))
#define RD_PIPE (stream == REPROC_STREAM_OUT ? process->pipe.out : process->pipe.err)
#define RD_ARGS_OK (process != NULL && P0(status) != ST_IN_CHILD && (stream == REPROC_STREAM_OUT || stream == REPROC_STREAM_ERR) && buffer != NULL)

CONTRACT(reproc_read)
int reproc_read(reproc_t *process, REPROC_STREAM stream, uint8_t *buffer, size_t size)
  REQ("C14/reproc_read.handle_invariant", process == NULL || INV(process))
  ASSIGNS(process != NULL: *process; g; buffer != NULL: __CPROVER_object_whole(buffer))
  ENS("C14/reproc_read.ghost_sane", G_ERR_SANE && g.now == OLD(g.now) && g.rl.rd_errno >= 0 && g.rl.rd_errno < 134 && (g.rl.rd_calls == OLD(g.rl.rd_calls) || g.rl.rd_calls == OLD(g.rl.rd_calls) + 1))
  ENS("C14/reproc_read.misuse_is_einval", IMPLIES(!RD_ARGS_OK, RV == -EINVAL && OS_UNTOUCHED))
  ENS("C02+C14/reproc_read.closed_or_unpiped_stream_is_epipe", IMPLIES(RD_ARGS_OK && RD_PIPE0 == -1, RV == -EPIPE && OS_UNTOUCHED && HANDLE_UNCHANGED))
  ENS("C02/reproc_read.one_read_on_that_stream", IMPLIES(RD_ARGS_OK && RD_PIPE0 != -1, g.rl.rd_calls == OLD(g.rl.rd_calls) + 1 && g.rl.rd_fd == RD_PIPE0 && g.rl.rd_buf == (const void *) buffer && g.rl.rd_n == size && g.wl.wr_calls == OLD(g.wl.wr_calls) && g.pl.poll_calls == OLD(g.pl.poll_calls)))
  ENS("C02/reproc_read.result_is_kernels", IMPLIES(RD_ARGS_OK && RD_PIPE0 != -1, (g.rl.rd_ret > 0 ? RV == g.rl.rd_ret : g.rl.rd_eof ? RV == -EPIPE : g.rl.rd_ret == 0 ? RV == 0 : (RV == -g.rl.rd_errno && RV < 0))))
  ENS("C02/reproc_read.end_of_stream_is_zero_for_a_nonempty_request", IMPLIES(RD_ARGS_OK && RD_PIPE0 != -1, g.rl.rd_eof == (g.rl.rd_ret == 0 && size > 0)))
  ENS("C02/reproc_read.epipe_only_at_end_of_stream", IMPLIES(RD_ARGS_OK && RD_PIPE0 != -1 && RV == -EPIPE, g.rl.rd_eof))
  ENS("C02/reproc_read.epipe_is_sticky", IMPLIES(RD_ARGS_OK && RV == -EPIPE, RD_PIPE == -1 && g.fds.open == (OLD(g.fds.open) & ~MASK_OF(RD_PIPE0)) && g.fds.lib == (OLD(g.fds.lib) & ~MASK_OF(RD_PIPE0))))
  ENS("C02/reproc_read.stream_kept_open_otherwise", IMPLIES(RD_ARGS_OK && RV != -EPIPE, RD_PIPE == RD_PIPE0 && g.fds.open == OLD(g.fds.open) && g.fds.lib == OLD(g.fds.lib)))
  ENSX("C17/reproc_read.ewouldblock", IMPLIES(RD_ARGS_OK && RD_PIPE0 != -1 && g.rl.rd_ret < 0 && g.rl.rd_errno == EAGAIN, RV == REPROC_EWOULDBLOCK))
  ENSX("C17/reproc_read.nonblocking_never_sleeps", IMPLIES(process != NULL && P0(nonblocking), g.may_block == OLD(g.may_block)))
  ENS("C14/reproc_read.invariant_kept", IMPLIES(process != NULL, INV(process)))
  ENS("C14/reproc_read.other_fields_kept", IMPLIES(process != NULL, INV(process) && process->status == P0(status) && process->handle == P0(handle) && process->pipe.in == P0(pipe.in) && process->pipe.exit == P0(pipe.exit) && process->deadline == P0(deadline) && (stream == REPROC_STREAM_OUT || process->pipe.out == P0(pipe.out)) && (stream == REPROC_STREAM_ERR || process->pipe.err == P0(pipe.err))))
  ENSX("C06/reproc_read.no_process_effect", g.nsig == OLD(g.nsig) && g.reaps == OLD(g.reaps) && g.kill_calls == OLD(g.kill_calls) && g.wait_calls == OLD(g.wait_calls))
  ;

#define WR_ARGS_OK (process != NULL && P0(status) != ST_IN_CHILD)

CONTRACT(reproc_write)
int reproc_write(reproc_t *process, const uint8_t *buffer, size_t size)
  REQ("C14/reproc_write.handle_invariant", process == NULL || INV(process))
  ASSIGNS(process != NULL: *process; g)
  ENS("C14/reproc_write.misuse_is_einval", IMPLIES(!WR_ARGS_OK || (buffer == NULL && size != 0), RV == -EINVAL && OS_UNTOUCHED))
  ENS("C14/reproc_write.null_empty_is_zero", IMPLIES(WR_ARGS_OK && buffer == NULL && size == 0, RV == 0 && OS_UNTOUCHED && HANDLE_UNCHANGED))
  ENS("C02+C14/reproc_write.closed_or_unpiped_stdin_is_epipe", IMPLIES(WR_ARGS_OK && buffer != NULL && P0(pipe.in) == -1, RV == -EPIPE && OS_UNTOUCHED && HANDLE_UNCHANGED))
  ENS("C02/reproc_write.one_write_on_stdin", IMPLIES(WR_ARGS_OK && buffer != NULL && P0(pipe.in) != -1, g.wl.wr_calls == OLD(g.wl.wr_calls) + 1 && g.wl.wr_fd == P0(pipe.in) && g.wl.wr_buf == (const void *) buffer && g.wl.wr_n == size && g.rl.rd_calls == OLD(g.rl.rd_calls) && g.pl.poll_calls == OLD(g.pl.poll_calls)))
  ENS("C02/reproc_write.result_is_kernels", IMPLIES(WR_ARGS_OK && buffer != NULL && P0(pipe.in) != -1, (g.wl.wr_ret >= 0 ? RV == g.wl.wr_ret : (RV == -g.wl.wr_errno && RV < 0))))
  ENS("C02/reproc_write.epipe_closes_stdin", IMPLIES(WR_ARGS_OK && buffer != NULL && RV == -EPIPE, process->pipe.in == -1 && g.fds.open == (OLD(g.fds.open) & ~MASK_OF(P0(pipe.in))) && g.fds.lib == (OLD(g.fds.lib) & ~MASK_OF(P0(pipe.in)))))
  ENS("C02/reproc_write.stdin_kept_open_otherwise", IMPLIES(process != NULL && !(WR_ARGS_OK && buffer != NULL && RV == -EPIPE), process->pipe.in == P0(pipe.in) && g.fds.open == OLD(g.fds.open) && g.fds.lib == OLD(g.fds.lib)))
  ENS("C17/reproc_write.ewouldblock", IMPLIES(WR_ARGS_OK && buffer != NULL && P0(pipe.in) != -1 && g.wl.wr_ret < 0 && g.wl.wr_errno == EAGAIN, RV == REPROC_EWOULDBLOCK))
  ENS("C17/reproc_write.nonblocking_never_sleeps", IMPLIES(process != NULL && P0(nonblocking), g.may_block == OLD(g.may_block)))
  ENS("C14/reproc_write.invariant_kept", IMPLIES(process != NULL, INV(process)))
  ENS("C14/reproc_write.other_fields_kept", IMPLIES(process != NULL, INV(process) && process->status == P0(status) && process->handle == P0(handle) && process->pipe.out == P0(pipe.out) && process->pipe.err == P0(pipe.err) && process->pipe.exit == P0(pipe.exit) && process->deadline == P0(deadline)))
  ENS("C06/reproc_write.no_process_effect", g.nsig == OLD(g.nsig) && g.reaps == OLD(g.reaps) && g.kill_calls == OLD(g.kill_calls) && g.wait_calls == OLD(g.wait_calls))
  ;

#endif
