/* Contracts of the static functions of process.posix.c. Included by harnesses
 * AFTER `#include "process.posix.c"` (CBMC merges a contract on a later
 * declaration with the definition). */
#ifndef VERIF_STATIC_PROCESS_H
#define VERIF_STATIC_PROCESS_H

/* C01: for every legal wait status (exited(c) or signaled(s[,core])): the exit
   code, or 128 + the signal number. Decode written from the POSIX layout, not
   from <sys/wait.h>. */
CONTRACT(parse_status)
static int parse_status(int status)
  ASSIGNS()
  ENS("C01/parse_status.exit_code_exact", IMPLIES(WST_LEGAL(status) && WST_EXITED(status), RV == ((status >> 8) & 0xff)))
  ENS("C01/parse_status.signal_plus_128", IMPLIES(WST_LEGAL(status) && !WST_EXITED(status), RV == 128 + (status & 0x7f)))
  ENS("C01/parse_status.in_range", IMPLIES(WST_LEGAL(status), RV >= 0 && RV <= 255))
  ;


/* descriptors 0 .. n-1 as a mask (n may exceed the model's 32) */
#define LOW_MASK(n) ((n) >= 32 ? 0xffffffffu : ((n) <= 0 ? 0u : ((1u << (n)) - 1u)))
#define EXCEPT6_MASK(e) (MASK_OF((e)[0]) | MASK_OF((e)[1]) | MASK_OF((e)[2]) | MASK_OF((e)[3]) | MASK_OF((e)[4]) | MASK_OF((e)[5]))
/* dispositions of signals 1..31 other than KILL and STOP (default by OS law) */
#define DISP_ALL_DEFAULT ((~g.disp_default & 0xfffffffeUL & ~(1UL << SIGKILL) & ~(1UL << SIGSTOP)) == 0)
/* the soft descriptor limit as the property states it: every descriptor number
   below it */
#define SOFT_LIMIT_MASK (gc.cfg_rlim_cur >= 32 ? 0xffffffffu : LOW_MASK((int) gc.cfg_rlim_cur))


CONTRACT(fd_in_set)
static bool fd_in_set(int fd, const int *fd_set, size_t size)
  REQ_(size == 6 && fd_set != NULL)
  ASSIGNS()
  ENS("C11/fd_in_set.membership", RV == (fd == fd_set[0] || fd == fd_set[1] || fd == fd_set[2] || fd == fd_set[3] || fd == fd_set[4] || fd == fd_set[5]))
  ;

CONTRACT(get_max_fd)
static int get_max_fd(void)
  ASSIGNS(G_ERR)
  ENS("C11/get_max_fd.highest_descriptor_number", IMPLIES(RV >= 0, gc.cfg_rlim_cur > (uint64_t) INT_MAX ? RV == INT_MAX : (uint64_t) RV + 1 == gc.cfg_rlim_cur))
  ENS("C04/get_max_fd.failure_is_errno", IMPLIES(RV < 0, RV == -g.e.err && g.e.faults > OLD(g.e.faults)))
  ;

#define ONLY_MEMORY_EFFECT (g.fds.open == OLD(g.fds.open) && g.fds.lib == OLD(g.fds.lib) && g.fds.cloexec == OLD(g.fds.cloexec) && g.fds.nonblock == OLD(g.fds.nonblock) && g.sigmask == OLD(g.sigmask) && g.child_pid == OLD(g.child_pid) && g.child_live == OLD(g.child_live) && g.fork_stage == OLD(g.fork_stage) && g.nsig == OLD(g.nsig) && g.cwd_id == OLD(g.cwd_id) && g.in_child == OLD(g.in_child) && g.disp_default == OLD(g.disp_default) && g.reaps == OLD(g.reaps) && g.child_reaped == OLD(g.child_reaped) && g.kill_calls == OLD(g.kill_calls))

/* As seen by process_start: NULL with errno set, or a fresh string recorded as
   "current directory / path" (layout and memory safety are decided in
   path_prepend_cwd's own harness). */
CONTRACT(path_prepend_cwd)
static char *path_prepend_cwd(const char *path)
  REQ_(path != NULL)
  ASSIGNS(G_ERR, g.prep_ptr, g.prep_src)
  ENS("C03/path_prepend_cwd.result_recorded", IMPLIES(RV != NULL, __CPROVER_is_fresh(RV, 1) && g.prep_ptr == RV && g.prep_src == path))
  ENS("C04/path_prepend_cwd.null_sets_errno", IMPLIES(RV == NULL, g.e.faults > OLD(g.e.faults) && g.e.err > 0 && IMPLIES(OLD(g.e.faults) == 0, g.e.first_errno == g.e.err)))
  ENS("C04/path_prepend_cwd.success_has_no_failed_call", IMPLIES(RV != NULL, g.e.faults == OLD(g.e.faults) && g.e.first_errno == OLD(g.e.first_errno)))
  ENS("C04/path_prepend_cwd.errno_sane", G_ERR_SANE)
  ;

/* process_fork, both sides of fork (the harness picks one through
   gc.cfg_child_side). Parent side: the caller's signal mask and descriptors are
   what they were, on every return; a positive result is a live child that did
   not fail inside process_fork. Child side (returns 0 or does not return): clean
   signal state, nothing open below the descriptor limit except `except`. */
CONTRACT(process_fork)
static pid_t process_fork(const int *except, size_t num_except)
  REQ_(except != NULL && num_except == 6 && !g.in_child && g.fork_stage == 0 && g.child_pid == 0 && !g.child_live)
  ASSIGNS(g)
  ENS("C14/process_fork.ghost_sane", GHOST_SANE && G_ERR_SANE && g.eintr_run == 0)
  ENS("C12/process_fork.parent_signal_mask_restored", IMPLIES(!g.in_child, g.sigmask == OLD(g.sigmask) && g.disp_default == OLD(g.disp_default) && g.cwd_id == OLD(g.cwd_id)))
  ENS("C05/process_fork.parent_descriptors_as_before", IMPLIES(!g.in_child, g.fds.open == OLD(g.fds.open) && g.fds.lib == OLD(g.fds.lib) && g.fds.cloexec == OLD(g.fds.cloexec) && g.fds.nonblock == OLD(g.fds.nonblock)))
  ENS("C04/process_fork.parent_never_sees_zero", IMPLIES(!g.in_child, RV != 0))
  ENS("C04+C06/process_fork.success_is_live_child", IMPLIES(!g.in_child && RV > 0, RV == g.child_pid && g.child_live && !g.child_reaped && g.reaps == OLD(g.reaps) && g.fork_stage == 2 && (g.child_fate == FATE_EXECED || g.child_fate == FATE_FAILED_LATE) && g.child_fate_errno > 0 && WST_LEGAL(g.child_wstatus)))
  ENS("C04+C05/process_fork.failure_leaves_no_child", IMPLIES(!g.in_child && RV < 0, !g.child_live && (g.child_pid == 0 || g.child_reaped)))
  ENS("C04/process_fork.failure_is_real_cause", IMPLIES(!g.in_child && RV < 0 && OLD(g.e.faults) == 0, (g.e.faults > 0 && RV == -g.e.first_errno) || (g.child_fate == FATE_FAILED_EARLY && RV == -g.child_fate_errno)))
  ENS("C04/process_fork.success_has_no_failed_call", IMPLIES(RV >= 0, g.e.faults == OLD(g.e.faults)))
  ENS("C04/process_fork.side_of_fork", IMPLIES(g.in_child, gc.cfg_child_side) && IMPLIES(RV > 0, !gc.cfg_child_side) && g.dup_ptr == OLD(g.dup_ptr) && g.dup_src == OLD(g.dup_src) && g.prep_ptr == OLD(g.prep_ptr) && g.prep_src == OLD(g.prep_src) && g.execd == OLD(g.execd) && g.env_ptr == OLD(g.env_ptr) && g.env_a == OLD(g.env_a) && g.env_b == OLD(g.env_b) && g.last_freed_vec == OLD(g.last_freed_vec) && g.exit_moved_to == OLD(g.exit_moved_to) && g.cwd_id == OLD(g.cwd_id) && g.now == OLD(g.now) && g.in_fd == OLD(g.in_fd) && g.stream_pos == OLD(g.stream_pos) && g.plan_pos == OLD(g.plan_pos))
  ENS("C10/process_fork.parent_descriptors_keep_their_objects", IMPLIES(!g.in_child, OBJ_KEPT(0) && OBJ_KEPT(1) && OBJ_KEPT(2) && OBJ_KEPT(3) && OBJ_KEPT(4) && OBJ_KEPT(5) && OBJ_KEPT(6) && OBJ_KEPT(7) && OBJ_KEPT(8) && OBJ_KEPT(9) && OBJ_KEPT(10) && OBJ_KEPT(11) && OBJ_KEPT(12) && OBJ_KEPT(13) && OBJ_KEPT(14) && OBJ_KEPT(15) && OBJ_KEPT(16) && OBJ_KEPT(17) && OBJ_KEPT(18) && OBJ_KEPT(19) && OBJ_KEPT(20) && OBJ_KEPT(21) && OBJ_KEPT(22) && OBJ_KEPT(23) && OBJ_KEPT(24) && OBJ_KEPT(25) && OBJ_KEPT(26) && OBJ_KEPT(27) && OBJ_KEPT(28) && OBJ_KEPT(29) && OBJ_KEPT(30) && OBJ_KEPT(31)))
  ENS("C10/process_fork.excepted_descriptors_keep_their_objects", OBJ_KEPT(except[0]) && OBJ_KEPT(except[1]) && OBJ_KEPT(except[2]) && OBJ_KEPT(except[3]) && OBJ_KEPT(except[4]) && OBJ_KEPT(except[5]) && (g.fds.rd & EXCEPT6_MASK(except)) == (OLD(g.fds.rd) & EXCEPT6_MASK(except)) && (g.fds.wr & EXCEPT6_MASK(except)) == (OLD(g.fds.wr) & EXCEPT6_MASK(except)))
  ENS("C06/process_fork.parent_sends_no_signal", g.nsig == OLD(g.nsig) && g.kill_calls == OLD(g.kill_calls))
  ENS("C12/process_fork.child_clean_signal_state", IMPLIES(g.in_child, RV == 0 && g.sigmask == 0 && DISP_ALL_DEFAULT))
  ENS("C11+C02/process_fork.child_keeps_only_excepted_descriptors", IMPLIES(g.in_child, (g.fds.open & SOFT_LIMIT_MASK & ~EXCEPT6_MASK(except)) == 0 && (g.fds.open & ~OLD(g.fds.open)) == 0))
  ENS("C10/process_fork.child_excepted_descriptors_untouched", IMPLIES(g.in_child, (g.fds.open & EXCEPT6_MASK(except)) == (OLD(g.fds.open) & EXCEPT6_MASK(except)) && (g.fds.cloexec & EXCEPT6_MASK(except)) == (OLD(g.fds.cloexec) & EXCEPT6_MASK(except))))
  ENS("C04/process_fork.child_reports_nothing_on_success", IMPLIES(g.in_child, g.child_reports == 0 && !g.exited))
  ;

#endif
