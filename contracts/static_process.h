/* Contracts of the static functions of process.posix.c. Included by harnesses
 * AFTER `#include "process.posix.c"` (CBMC merges a contract on a later
 * declaration with the definition). */
#ifndef VERIF_STATIC_PROCESS_H
#define VERIF_STATIC_PROCESS_H

/* C01: for every legal wait status (exited(c) or signaled(s[,core])): the exit
   code, or 128 + the signal number. Decode written from the POSIX layout, not
   from <sys/wait.h>. */
CONTRACT(parse_status)
static int parse_status(int status)
  ASSIGNS()
  ENS("C01/parse_status.exit_code_exact", IMPLIES(WST_LEGAL(status) && WST_EXITED(status), RV == ((status >> 8) & 0xff)))
  ENS("C01/parse_status.signal_plus_128", IMPLIES(WST_LEGAL(status) && !WST_EXITED(status), RV == 128 + (status & 0x7f)))
  ENS("C01/parse_status.in_range", IMPLIES(WST_LEGAL(status), RV >= 0 && RV <= 255))
  ;

#endif
