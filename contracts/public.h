/* Contracts of the non-static functions of reproc (POSIX build).
 * Pre-included (-include) so that each contract is attached to an earlier
 * declaration and merged by CBMC with the real definition in /repo; no function
 * body is copied. One labelled clause per line: the driver maps CBMC's
 * (file, line) of a refuted clause back to its label. */
#ifndef VERIF_PUBLIC_CONTRACTS_H
#define VERIF_PUBLIC_CONTRACTS_H

#include <reproc/reproc.h>
#include <reproc/drain.h>
#include <reproc/run.h>
#include "clock.h"
#include "handle.h"
#include "init.h"
#include "options.h"
#include "pipe.h"
#include "process.h"
#include "redirect.h"
#include "strv.h"

#include "spec_options.h"


/* ------------------------------- options.c ------------------------------- */

CONTRACT(parse_stop_actions)
reproc_stop_actions parse_stop_actions(reproc_stop_actions stop)
  ENS("C07+C15/parse_stop_actions.default_policy", STOP_PARSED(RV, stop))
  ASSIGNS();

#define O0 OLD(*options)
CONTRACT(parse_options)
int parse_options(reproc_options *options, const char *const *argv)
  REQ_(options != NULL)
  ASSIGNS(*options)
  ENS("C13/parse_options.only_einval", RV == 0 || RV == -EINVAL)
  ENS("C13/parse_options.conflicts_rejected", IMPLIES(OPT_REJECT(O0, argv == NULL, argv != NULL && argv[0] != NULL), RV == -EINVAL))
  ENS("C13/parse_options.documented_combinations_accepted", IMPLIES(OPT_ALLOWED(O0, argv == NULL, argv != NULL && argv[0] != NULL), RV == 0))
  ENS("C13+C10/parse_options.effective_stdin", IMPLIES((RV == 0 && OPT_TYPES_IN_RANGE(O0)), RD_T(options->redirect.in) == OPT_EFF_IN(O0)))
  ENS("C13+C10/parse_options.effective_stdout", IMPLIES((RV == 0 && OPT_TYPES_IN_RANGE(O0)), RD_T(options->redirect.out) == OPT_EFF_OUT(O0)))
  ENS("C13+C10/parse_options.effective_stderr", IMPLIES((RV == 0 && OPT_TYPES_IN_RANGE(O0)), RD_T(options->redirect.err) == OPT_EFF_ERR(O0)))
  ENS("C13+C10/parse_options.stdin_operands_kept", IMPLIES(RV == 0, options->redirect.in.handle == O0.redirect.in.handle && options->redirect.in.file == O0.redirect.in.file && options->redirect.in.path == O0.redirect.in.path))
  ENS("C13+C10/parse_options.stdout_operands", IMPLIES(RV == 0, options->redirect.out.handle == O0.redirect.out.handle && options->redirect.out.file == (O0.redirect.file != NULL ? O0.redirect.file : O0.redirect.out.file) && options->redirect.out.path == (O0.redirect.path != NULL ? O0.redirect.path : O0.redirect.out.path)))
  ENS("C13+C10/parse_options.stderr_operands", IMPLIES(RV == 0, options->redirect.err.handle == O0.redirect.err.handle && options->redirect.err.file == (O0.redirect.file != NULL ? O0.redirect.file : O0.redirect.err.file) && options->redirect.err.path == (O0.redirect.path != NULL ? O0.redirect.path : O0.redirect.err.path)))
  ENS("C13+C08/parse_options.deadline_zero_is_none", IMPLIES(RV == 0, options->deadline == (O0.deadline == 0 ? -1 : O0.deadline)))
  ENS("C13+C15/parse_options.stop_parsed", IMPLIES(RV == 0, STOP_PARSED(options->stop, O0.stop)))
  ENS("C13/parse_options.other_fields_unchanged", options->working_directory == O0.working_directory && options->env.behavior == O0.env.behavior && options->env.extra == O0.env.extra && options->input.data == O0.input.data && options->input.size == O0.input.size && options->fork == O0.fork && options->nonblocking == O0.nonblocking && options->redirect.parent == O0.redirect.parent && options->redirect.discard == O0.redirect.discard)
  ;
#undef O0

#endif
