/* Contracts of the non-static functions of reproc (POSIX build).
 * Pre-included (-include) so that each contract is attached to an earlier
 * declaration and merged by CBMC with the real definition in /repo; no function
 * body is copied. One labelled clause per line: the driver maps CBMC's
 * (file, line) of a refuted clause back to its label. */
#ifndef VERIF_PUBLIC_CONTRACTS_H
#define VERIF_PUBLIC_CONTRACTS_H

#include <reproc/reproc.h>
#include <reproc/drain.h>
#include <reproc/run.h>
#include "clock.h"
#include "handle.h"
#include "init.h"
#include "options.h"
#include "pipe.h"
#include "process.h"
#include "redirect.h"
#include "strv.h"

#include "spec_options.h"


/* Frames. Contracts name the groups of ghost fields a function may touch, so that
   a replaced call leaves everything else alone and an enforced body is checked
   not to reach further. */
#define G_FD g.fds
#define G_ERR g.e
#define G_RD g.rl, g.may_block
#define G_WR g.wl, g.may_block, g.in_fd, g.stream_pos
#define G_POLL g.pl, g.now, g.may_block, g.plan_pos
/* what every contract that may fail a call promises about the error ghost */
#define G_ERR_SANE (g.e.err >= 0 && g.e.err < 134 && g.e.first_errno >= 0 && g.e.first_errno < 134 && g.e.last_fault >= 0 && g.e.last_fault < 134 && g.e.faults >= OLD(g.e.faults) && g.e.faults <= 1000 && g.e.os_calls >= OLD(g.e.os_calls) && IMPLIES(OLD(g.e.faults) > 0, g.e.first_errno == OLD(g.e.first_errno)) && IMPLIES(g.e.faults == OLD(g.e.faults), g.e.first_errno == OLD(g.e.first_errno)))
/* descriptors that were open keep the object behind them (index masked so that
   the snapshot taken at entry is in bounds) */
#define OBJ_KEPT(fd) (!FD_OK(fd) || (OLD(g.fds.open) & BIT(fd)) == 0 || g.fds.obj[(fd) & 31] == OLD(g.fds.obj[(fd) & 31]))

/* ------------------------------- options.c ------------------------------- */

CONTRACT(parse_stop_actions)
reproc_stop_actions parse_stop_actions(reproc_stop_actions stop)
  ENS("C07+C15/parse_stop_actions.default_policy", STOP_PARSED(RV, stop))
  ASSIGNS();

#define O0 OLD(*options)
CONTRACT(parse_options)
int parse_options(reproc_options *options, const char *const *argv)
  REQ_(options != NULL)
  ASSIGNS(*options)
  ENS("C13/parse_options.only_einval", RV == 0 || RV == -EINVAL)
  ENS("C13/parse_options.conflicts_rejected", IMPLIES(OPT_REJECT(O0, argv == NULL, argv != NULL && argv[0] != NULL), RV == -EINVAL))
  ENS("C13/parse_options.documented_combinations_accepted", IMPLIES(OPT_ALLOWED(O0, argv == NULL, argv != NULL && argv[0] != NULL), RV == 0))
  ENS("C13+C10/parse_options.effective_stdin", IMPLIES((RV == 0 && OPT_TYPES_IN_RANGE(O0)), RD_T(options->redirect.in) == OPT_EFF_IN(O0)))
  ENS("C13+C10/parse_options.effective_stdout", IMPLIES((RV == 0 && OPT_TYPES_IN_RANGE(O0)), RD_T(options->redirect.out) == OPT_EFF_OUT(O0)))
  ENS("C13+C10/parse_options.effective_stderr", IMPLIES((RV == 0 && OPT_TYPES_IN_RANGE(O0)), RD_T(options->redirect.err) == OPT_EFF_ERR(O0)))
  ENS("C13/parse_options.out_of_range_types_not_rewritten", IMPLIES(RV == 0, IMPLIES(!RD_IN_RANGE(O0.redirect.in), options->redirect.in.type == O0.redirect.in.type) && IMPLIES(!RD_IN_RANGE(O0.redirect.out), options->redirect.out.type == O0.redirect.out.type) && IMPLIES(!RD_IN_RANGE(O0.redirect.err), options->redirect.err.type == O0.redirect.err.type)))
  ENS("C13+C10/parse_options.stdin_operands_kept", IMPLIES(RV == 0, options->redirect.in.handle == O0.redirect.in.handle && options->redirect.in.file == O0.redirect.in.file && options->redirect.in.path == O0.redirect.in.path))
  ENS("C13+C10/parse_options.stdout_operands", IMPLIES(RV == 0, options->redirect.out.handle == O0.redirect.out.handle && options->redirect.out.file == (O0.redirect.file != NULL ? O0.redirect.file : O0.redirect.out.file) && options->redirect.out.path == (O0.redirect.path != NULL ? O0.redirect.path : O0.redirect.out.path)))
  ENS("C13+C10/parse_options.stderr_operands", IMPLIES(RV == 0, options->redirect.err.handle == O0.redirect.err.handle && options->redirect.err.file == (O0.redirect.file != NULL ? O0.redirect.file : O0.redirect.err.file) && options->redirect.err.path == (O0.redirect.path != NULL ? O0.redirect.path : O0.redirect.err.path)))
  ENS("C13+C08/parse_options.deadline_zero_is_none", IMPLIES(RV == 0, options->deadline == (O0.deadline == 0 ? -1 : O0.deadline)))
  ENS("C13+C15/parse_options.stop_parsed", IMPLIES(RV == 0, STOP_PARSED(options->stop, O0.stop)))
  ENS("C13+C02/parse_options.other_fields_unchanged", options->working_directory == O0.working_directory && options->env.behavior == O0.env.behavior && options->env.extra == O0.env.extra && options->input.data == O0.input.data && options->input.size == O0.input.size && options->fork == O0.fork && options->nonblocking == O0.nonblocking && options->redirect.parent == O0.redirect.parent && options->redirect.discard == O0.redirect.discard)
  ;
#undef O0


/* ------------------------------- clock.posix.c ---------------------------- */

/* the library's clock is the OS clock in milliseconds; reading it lets virtual
   time pass (non-decreasing) and has no other effect */
CONTRACT(now)
int64_t now(void)
  ASSIGNS(g.now, g.e.os_calls)
  ENS("C08/now.is_os_clock_in_ms", RV == g.now)
  ENS("C08/now.monotone", g.now >= OLD(g.now) && g.now - OLD(g.now) <= 0x7fffffffLL)
  ;

/* ------------------------------ handle.posix.c ---------------------------- */

#define FD_FRAME_EXCEPT(m)                                                     \
  ((g.fds.open & ~(m)) == (OLD(g.fds.open) & ~(m)) && (g.fds.lib & ~(m)) == (OLD(g.fds.lib) & ~(m)) && \
   (g.fds.cloexec & ~(m)) == (OLD(g.fds.cloexec) & ~(m)) && (g.fds.nonblock & ~(m)) == (OLD(g.fds.nonblock) & ~(m)))
#define FD_LEDGER_UNCHANGED                                                    \
  (g.fds.open == OLD(g.fds.open) && g.fds.lib == OLD(g.fds.lib))

CONTRACT(handle_destroy)
int handle_destroy(int handle)
  /* the caller may only hand over what the library opened and still holds */
  REQ("C05/handle_destroy.own_open_descriptor", handle == -1 || g.in_child || (IS_OPEN(handle) && IS_LIB(handle)))
  ASSIGNS(G_FD, G_ERR)
  ENS("C14/handle_destroy.error_ghost_sane", G_ERR_SANE)
  ENS("C05+INV/handle_destroy.returns_invalid", RV == -1)
  ENS("C05/handle_destroy.invalid_is_noop", IMPLIES(handle == -1, g.e.os_calls == OLD(g.e.os_calls) && FD_LEDGER_UNCHANGED))
  ENS("C05/handle_destroy.releases_exactly_that_descriptor", g.fds.open == (OLD(g.fds.open) & ~MASK_OF(handle)) && g.fds.lib == (OLD(g.fds.lib) & ~MASK_OF(handle)))
  ENS("C05/handle_destroy.others_keep_flags", FD_FRAME_EXCEPT(MASK_OF(handle)))
  ;

CONTRACT(handle_cloexec)
int handle_cloexec(int handle, bool enable)
  ASSIGNS(g.fds.cloexec, G_ERR)
  ENS("C14/handle_cloexec.error_ghost_sane", G_ERR_SANE)
  ENS("C11/handle_cloexec.sets_flag", IMPLIES(RV == 0, IS_OPEN(handle) && ((g.fds.cloexec & MASK_OF(handle)) != 0) == enable))
  ENS("C11/handle_cloexec.only_that_flag", g.fds.open == OLD(g.fds.open) && g.fds.lib == OLD(g.fds.lib) && g.fds.nonblock == OLD(g.fds.nonblock) && (g.fds.cloexec & ~MASK_OF(handle)) == (OLD(g.fds.cloexec) & ~MASK_OF(handle)))
  ENS("C04/handle_cloexec.reports_errno", (RV == 0 || RV == -g.e.err) && RV <= 0)
  ENS("C04/handle_cloexec.fails_only_when_the_os_refused", IMPLIES(RV < 0, g.e.faults > OLD(g.e.faults) || (OLD(g.fds.open) & MASK_OF(handle)) == 0) && IMPLIES(RV == 0, g.e.faults == OLD(g.e.faults)))
  ENS("C04/handle_cloexec.first_failure_reported", IMPLIES(RV < 0 && OLD(g.e.faults) == 0 && g.e.faults > 0, RV == -g.e.first_errno))
  ;

/* ------------------------------- pipe.posix.c ----------------------------- */

CONTRACT(pipe_destroy)
int pipe_destroy(int pipe)
  REQ("C05/pipe_destroy.own_open_descriptor", pipe == -1 || g.in_child || (IS_OPEN(pipe) && IS_LIB(pipe)))
  ASSIGNS(G_FD, G_ERR)
  ENS("C14/pipe_destroy.error_ghost_sane", G_ERR_SANE)
  ENS("C05+INV/pipe_destroy.returns_invalid", RV == -1)
  ENS("C05/pipe_destroy.invalid_is_noop", IMPLIES(pipe == -1, g.e.os_calls == OLD(g.e.os_calls) && FD_LEDGER_UNCHANGED))
  ENS("C05/pipe_destroy.releases_exactly_that_descriptor", g.fds.open == (OLD(g.fds.open) & ~MASK_OF(pipe)) && g.fds.lib == (OLD(g.fds.lib) & ~MASK_OF(pipe)))
  ENS("C05/pipe_destroy.others_keep_flags", FD_FRAME_EXCEPT(MASK_OF(pipe)))
  ;

#define PIPE_PAIR_FRESH(r, w)                                                  \
  (FD_OK(r) && FD_OK(w) && (r) != (w) && (OLD(g.fds.open) & (BIT(r) | BIT(w))) == 0 && \
   g.fds.open == (OLD(g.fds.open) | BIT(r) | BIT(w)) && g.fds.lib == (OLD(g.fds.lib) | BIT(r) | BIT(w)))

CONTRACT(pipe_init)
int pipe_init(int *read, int *write)
  REQ_(read != NULL && write != NULL && read != write)
  ASSIGNS(*read, *write, G_FD, G_ERR)
  ENS("C14/pipe_init.error_ghost_sane", G_ERR_SANE)
  ENS("C05+INV/pipe_init.success_two_fresh_library_descriptors", IMPLIES(RV == 0, PIPE_PAIR_FRESH(*read, *write)))
  ENS("C11/pipe_init.both_ends_close_on_exec", IMPLIES(RV == 0, (g.fds.cloexec & (MASK_OF(*read) | MASK_OF(*write))) == (MASK_OF(*read) | MASK_OF(*write))))
  ENS("C17/pipe_init.both_ends_blocking", IMPLIES(RV == 0, (g.fds.nonblock & (MASK_OF(*read) | MASK_OF(*write))) == 0))
  ENS("C10/pipe_init.ends_of_one_pipe", IMPLIES(RV == 0, g.fds.obj[*read] >= OBJ_PIPE_BASE && (g.fds.obj[*read] & 1) == 0 && g.fds.obj[*write] == g.fds.obj[*read] + 1 && (g.fds.rd & BIT(*read)) != 0 && (g.fds.wr & BIT(*write)) != 0))
  ENS("C05/pipe_init.failure_leaves_no_descriptor", IMPLIES(RV != 0, FD_LEDGER_UNCHANGED))
  ENS("C05+INV/pipe_init.failure_leaves_outputs_untouched", IMPLIES(RV != 0, *read == OLD(*read) && *write == OLD(*write)))
  ENS("C05/pipe_init.other_descriptors_untouched", FD_FRAME_EXCEPT(RV == 0 ? (MASK_OF(*read) | MASK_OF(*write)) : 0u))
  ENS("C04/pipe_init.zero_or_negative_errno", RV <= 0 && IMPLIES(RV < 0, g.e.faults > OLD(g.e.faults)) && IMPLIES(RV == 0, g.e.faults == OLD(g.e.faults)))
  ENS("C04/pipe_init.first_failure_reported", IMPLIES(RV < 0 && OLD(g.e.faults) == 0, RV == -g.e.first_errno))
  ;

CONTRACT(pipe_nonblocking)
int pipe_nonblocking(int pipe, bool enable)
  ASSIGNS(g.fds.nonblock, G_ERR)
  ENS("C14/pipe_nonblocking.error_ghost_sane", G_ERR_SANE)
  ENS("C17/pipe_nonblocking.sets_flag", IMPLIES(RV == 0, IS_OPEN(pipe) && ((g.fds.nonblock & MASK_OF(pipe)) != 0) == enable))
  ENS("C17/pipe_nonblocking.only_that_flag", g.fds.open == OLD(g.fds.open) && g.fds.lib == OLD(g.fds.lib) && g.fds.cloexec == OLD(g.fds.cloexec) && (g.fds.nonblock & ~MASK_OF(pipe)) == (OLD(g.fds.nonblock) & ~MASK_OF(pipe)))
  ENS("C04/pipe_nonblocking.zero_or_negative_errno", RV <= 0 && IMPLIES(RV < 0, RV == -g.e.err))
  ENS("C04/pipe_nonblocking.fails_only_when_the_os_refused", IMPLIES(RV < 0, g.e.faults > OLD(g.e.faults) || (OLD(g.fds.open) & MASK_OF(pipe)) == 0) && IMPLIES(RV == 0, g.e.faults == OLD(g.e.faults)))
  ENS("C04/pipe_nonblocking.first_failure_reported", IMPLIES(RV < 0 && OLD(g.e.faults) == 0 && g.e.faults > 0, RV == -g.e.first_errno))
  ENS("C17/pipe_nonblocking.does_not_block", g.may_block == OLD(g.may_block))
  ;

/* The library's share of stream fidelity: it asks the kernel exactly once, on
   that descriptor, with the caller's buffer and size, and reports what the
   kernel said (C02). */
CONTRACT(pipe_read)
int pipe_read(int pipe, uint8_t *buffer, size_t size)
  REQ("C02/pipe_read.descriptor_open", IS_OPEN(pipe))
  REQ_(buffer != NULL)
  ASSIGNS(G_ERR, G_RD, __CPROVER_object_whole(buffer))
  ENS("C14/pipe_read.error_ghost_sane", G_ERR_SANE)
  ENS("C02/pipe_read.exactly_one_read_as_asked", g.rl.rd_calls == OLD(g.rl.rd_calls) + 1 && g.rl.rd_fd == pipe && g.rl.rd_buf == (const void *) buffer && g.rl.rd_n == size && g.wl.wr_calls == OLD(g.wl.wr_calls))
  ENS("C02/pipe_read.count_is_kernels", IMPLIES(g.rl.rd_ret > 0, RV == g.rl.rd_ret))
  ENS("C02/pipe_read.eof_is_epipe", IMPLIES(g.rl.rd_eof, RV == -EPIPE))
  ENS("C02/pipe_read.epipe_only_at_end_of_stream", IMPLIES(RV == -EPIPE, g.rl.rd_eof))
  ENS("C02/pipe_read.empty_read_is_not_end_of_stream", IMPLIES(g.rl.rd_ret == 0 && !g.rl.rd_eof, RV == 0))
  ENS("C02/pipe_read.error_is_errno", IMPLIES(g.rl.rd_ret < 0, RV == -g.rl.rd_errno && RV < 0))
  ENS("C17/pipe_read.ewouldblock", IMPLIES(g.rl.rd_ret < 0 && g.rl.rd_errno == EAGAIN, RV == REPROC_EWOULDBLOCK))
  ENS("C17/pipe_read.nonblocking_never_sleeps", IMPLIES((OLD(g.fds.nonblock) & MASK_OF(pipe)) != 0, g.may_block == OLD(g.may_block)))
  ENS("C05/pipe_read.ledger_unchanged", FD_LEDGER_UNCHANGED && g.fds.nonblock == OLD(g.fds.nonblock) && g.fds.cloexec == OLD(g.fds.cloexec))
  ;

CONTRACT(pipe_write)
int pipe_write(int pipe, const uint8_t *buffer, size_t size)
  REQ("C02/pipe_write.descriptor_open", IS_OPEN(pipe))
  REQ_(buffer != NULL)
  ASSIGNS(G_ERR, G_WR)
  ENS("C14/pipe_write.error_ghost_sane", G_ERR_SANE)
  ENS("C02/pipe_write.exactly_one_write_as_asked", g.wl.wr_calls == OLD(g.wl.wr_calls) + 1 && g.wl.wr_fd == pipe && g.wl.wr_buf == (const void *) buffer && g.wl.wr_n == size && g.rl.rd_calls == OLD(g.rl.rd_calls))
  ENS("C02/pipe_write.count_is_kernels", IMPLIES(g.wl.wr_ret >= 0, RV == g.wl.wr_ret))
  ENS("C02/pipe_write.error_is_errno", IMPLIES(g.wl.wr_ret < 0, RV == -g.wl.wr_errno && RV < 0))
  ENS("C17/pipe_write.ewouldblock", IMPLIES(g.wl.wr_ret < 0 && g.wl.wr_errno == EAGAIN, RV == REPROC_EWOULDBLOCK))
  ENS("C17/pipe_write.nonblocking_never_sleeps", IMPLIES((OLD(g.fds.nonblock) & MASK_OF(pipe)) != 0, g.may_block == OLD(g.may_block)))
  ENS("C05/pipe_write.ledger_unchanged", FD_LEDGER_UNCHANGED && g.fds.nonblock == OLD(g.fds.nonblock) && g.fds.cloexec == OLD(g.fds.cloexec))
  ;

/* -------------------------- redirect.c / redirect.posix.c ----------------- */

#define FD_NEW(fd) (FD_OK(fd) && (OLD(g.fds.open) & BIT(fd)) == 0 && (g.fds.open & BIT(fd)) != 0 && (g.fds.lib & BIT(fd)) != 0)
#define ONLY_NEW1(a) (g.fds.open == (OLD(g.fds.open) | MASK_OF(a)) && g.fds.lib == (OLD(g.fds.lib) | MASK_OF(a)))
#define ONLY_NEW2(a, b) (g.fds.open == (OLD(g.fds.open) | MASK_OF(a) | MASK_OF(b)) && g.fds.lib == (OLD(g.fds.lib) | MASK_OF(a) | MASK_OF(b)))
#define STREAM_OK(s) ((s) == REPROC_STREAM_IN || (s) == REPROC_STREAM_OUT || (s) == REPROC_STREAM_ERR)
/* direction the child needs: stdin is read, stdout/stderr are written */
#define CHILD_DIR_OK(s, fd) ((s) == REPROC_STREAM_IN ? (g.fds.rd & MASK_OF(fd)) != 0 : (g.fds.wr & MASK_OF(fd)) != 0)
#define RTYPE ((unsigned) OLD(redirect->type))
#define PARENT_FALLS_BACK (gc.cfg_std_fileno[stream] < 0)
#define OPENS_FILE (RTYPE == RT_DISCARD || RTYPE == RT_PATH || (RTYPE == RT_PARENT && PARENT_FALLS_BACK))

CONTRACT(redirect_init)
int redirect_init(pipe_type *parent, handle_type *child, REPROC_STREAM stream, reproc_redirect *redirect, bool nonblocking, handle_type out)
  REQ_(parent != NULL && child != NULL && redirect != NULL && (void *) parent != (void *) child)
  REQ("C10/redirect_init.stream_valid", STREAM_OK(stream))
  REQ("C10/redirect_init.operand_present", IMPLIES(RD_T(*redirect) == RT_PATH, redirect->path != NULL) && IMPLIES(RD_T(*redirect) == RT_FILE, redirect->file != NULL))
  ASSIGNS(*parent, *child, redirect->type, G_FD, G_ERR)
  ENS("C14/redirect_init.error_ghost_sane", G_ERR_SANE)
  ENS("C10+INV/redirect_init.pipe_parent_holds_other_end", IMPLIES(RV == 0 && RTYPE == RT_PIPE, FD_NEW(*parent) && FD_NEW(*child) && *parent != *child && ONLY_NEW2(*parent, *child) && g.fds.obj[*child] >= OBJ_PIPE_BASE && (stream == REPROC_STREAM_IN ? ((g.fds.obj[*child] & 1) == 0 && g.fds.obj[*parent] == g.fds.obj[*child] + 1) : ((g.fds.obj[*parent] & 1) == 0 && g.fds.obj[*child] == g.fds.obj[*parent] + 1)) && CHILD_DIR_OK(stream, *child)))
  ENS("C17/redirect_init.pipe_parent_end_mode_child_end_blocking", IMPLIES(RV == 0 && RTYPE == RT_PIPE, ((g.fds.nonblock & MASK_OF(*parent)) != 0) == nonblocking && (g.fds.nonblock & MASK_OF(*child)) == 0))
  ENS("C11/redirect_init.created_descriptors_close_on_exec", IMPLIES(RV == 0 && (RTYPE == RT_PIPE || OPENS_FILE), (g.fds.cloexec & MASK_OF(*child)) != 0 && IMPLIES(RTYPE == RT_PIPE, (g.fds.cloexec & MASK_OF(*parent)) != 0)))
  ENS("C10/redirect_init.parent_stream", IMPLIES(RV == 0 && RTYPE == RT_PARENT && !PARENT_FALLS_BACK, *child == gc.cfg_std_fileno[stream] && FD_LEDGER_UNCHANGED))
  ENS("C10/redirect_init.parent_stream_missing_means_null_device", IMPLIES(RV == 0 && RTYPE == RT_PARENT && PARENT_FALLS_BACK, FD_NEW(*child) && ONLY_NEW1(*child) && g.fds.obj[*child] == OBJ_DEVNULL && CHILD_DIR_OK(stream, *child)))
  ENS("C10/redirect_init.discard_is_null_device", IMPLIES(RV == 0 && RTYPE == RT_DISCARD, FD_NEW(*child) && ONLY_NEW1(*child) && g.fds.obj[*child] == OBJ_DEVNULL && CHILD_DIR_OK(stream, *child)))
  ENS("C10/redirect_init.path_opened_in_right_direction", IMPLIES(RV == 0 && RTYPE == RT_PATH, FD_NEW(*child) && ONLY_NEW1(*child) && CHILD_DIR_OK(stream, *child) && IMPLIES(redirect->path == gc.cfg_path[0], g.fds.obj[*child] == OBJ_PATH_BASE)))
  ENS("C10/redirect_init.handle_is_users", IMPLIES(RV == 0 && RTYPE == RT_HANDLE, *child == redirect->handle && FD_LEDGER_UNCHANGED))
  ENS("C10/redirect_init.file_is_users", IMPLIES(RV == 0 && RTYPE == RT_FILE, gc.cfg_file_fd >= 0 && *child == gc.cfg_file_fd && FD_LEDGER_UNCHANGED))
  ENS("C10/redirect_init.stdout_shares_childs_stdout", IMPLIES(RV == 0 && RTYPE == RT_STDOUT, *child == out && FD_LEDGER_UNCHANGED))
  ENS("C05/redirect_init.null_device_fallback_is_recorded_for_release", RD_T(*redirect) == ((RV == 0 && RTYPE == RT_PARENT && PARENT_FALLS_BACK) ? RT_DISCARD : RTYPE))
  ENS("C10+INV/redirect_init.parent_end_only_for_pipes", IMPLIES(RV == 0 && RTYPE != RT_PIPE, *parent == -1))
  ENS("C05/redirect_init.failure_leaves_no_descriptor", IMPLIES(RV != 0, FD_LEDGER_UNCHANGED))
  ENS("C05+INV/redirect_init.failure_leaves_outputs_untouched", IMPLIES(RV != 0, *parent == OLD(*parent) && *child == OLD(*child)))
  ENS("C05/redirect_init.other_descriptors_untouched", FD_FRAME_EXCEPT(RV == 0 ? ((RTYPE == RT_PIPE ? MASK_OF(*parent) : 0u) | ((RTYPE == RT_PIPE || OPENS_FILE) ? MASK_OF(*child) : 0u)) : 0u))
  ENS("C04/redirect_init.success_has_no_failed_call", IMPLIES(RV == 0, g.e.faults == OLD(g.e.faults)))
  ENS("C04/redirect_init.zero_or_negative_error", RV <= 0 && IMPLIES(RV < 0 && OLD(g.e.faults) == 0 && g.e.faults > 0, RV == -g.e.first_errno) && IMPLIES(RV < 0 && g.e.faults == OLD(g.e.faults), RV == -EINVAL && (RTYPE == RT_DEFAULT || RTYPE > 7u)))
  ENS("C13/redirect_init.unknown_type_is_einval", IMPLIES(RTYPE == RT_DEFAULT || RTYPE > 7u, RV == -EINVAL && g.e.os_calls == OLD(g.e.os_calls)))
  ;
#undef RTYPE

#define DESTROY_CLOSES(t) ((unsigned) (t) == RT_PIPE || (unsigned) (t) == RT_DISCARD || (unsigned) (t) == RT_PATH)

CONTRACT(redirect_destroy)
handle_type redirect_destroy(handle_type child, REPROC_REDIRECT type)
  REQ("C05/redirect_destroy.closes_only_library_descriptors", IMPLIES(child != -1 && DESTROY_CLOSES(type), g.in_child || (IS_OPEN(child) && IS_LIB(child))))
  ASSIGNS(G_FD, G_ERR)
  ENS("C14/redirect_destroy.error_ghost_sane", G_ERR_SANE)
  ENS("C05+INV/redirect_destroy.returns_invalid", RV == -1)
  ENS("C05/redirect_destroy.invalid_is_noop", IMPLIES(child == -1, g.e.os_calls == OLD(g.e.os_calls) && g.e.faults == OLD(g.e.faults) && g.e.err == OLD(g.e.err) && FD_LEDGER_UNCHANGED))
  ENS("C05/redirect_destroy.closes_what_the_library_opened", IMPLIES(DESTROY_CLOSES(type), g.fds.open == (OLD(g.fds.open) & ~MASK_OF(child)) && g.fds.lib == (OLD(g.fds.lib) & ~MASK_OF(child))))
  ENS("C05/redirect_destroy.never_closes_user_or_parent_streams", IMPLIES(!DESTROY_CLOSES(type), FD_LEDGER_UNCHANGED && g.e.os_calls == OLD(g.e.os_calls)))
  ENS("C05/redirect_destroy.others_keep_flags", FD_FRAME_EXCEPT(DESTROY_CLOSES(type) ? MASK_OF(child) : 0u))
  ;

/* ------------------------------ process.posix.c --------------------------- */

CONTRACT(process_wait)
int process_wait(pid_t process)
  REQ("C06/process_wait.own_unreaped_child", process > 0 && process == g.child_pid && g.child_live && !g.child_reaped)
  ASSIGNS(G_ERR, g.wait_calls, g.child_reaped, g.child_live, g.reaps, g.may_block, g.eintr_run, g.wait_eintr)
  ENS("C14/process_wait.error_ghost_sane", G_ERR_SANE)
  ENS("C01/process_wait.one_blocking_waitpid", g.wait_calls == OLD(g.wait_calls) + 1)
  ENS("C01+INV/process_wait.status_means_reaped", IMPLIES(RV >= 0, g.child_reaped && !g.child_live && g.reaps == OLD(g.reaps) + 1))
  ENS("C01/process_wait.status_is_exact", IMPLIES(RV >= 0, RV == WST_DECODE(g.child_wstatus)))
  ENS("C01+INV/process_wait.error_means_not_reaped", IMPLIES(RV < 0, !g.child_reaped && g.child_live && g.reaps == OLD(g.reaps) && RV == -g.e.err))
  ENS("C06/process_wait.no_signal", g.nsig == OLD(g.nsig) && g.kill_calls == OLD(g.kill_calls))
  ENS("C05/process_wait.ledger_unchanged", FD_LEDGER_UNCHANGED && g.child_pid == OLD(g.child_pid) && g.child_wstatus == OLD(g.child_wstatus))
  ;

CONTRACT(process_terminate)
int process_terminate(pid_t process)
  REQ("C06/process_terminate.own_unreaped_child", process > 0 && process == g.child_pid && g.child_live && !g.child_reaped)
  ASSIGNS(G_ERR, g.kill_calls, g.sig_log, g.nsig, g.plan_pos)
  ENS("C14/process_terminate.error_ghost_sane", G_ERR_SANE)
  ENS("C07/process_terminate.one_kill", g.kill_calls == OLD(g.kill_calls) + 1 && g.wait_calls == OLD(g.wait_calls))
  ENS("C07/process_terminate.sends_sigterm_once", IMPLIES(RV == 0, g.nsig == OLD(g.nsig) + 1 && IMPLIES(OLD(g.nsig) < 4, g.sig_log[OLD(g.nsig)] == SIGTERM)))
  ENS("C07/process_terminate.failure_sends_nothing", IMPLIES(RV != 0, RV == -g.e.err && RV < 0 && g.nsig == OLD(g.nsig)))
  ENS("C05/process_terminate.ledger_unchanged", FD_LEDGER_UNCHANGED && g.child_pid == OLD(g.child_pid) && g.child_reaped == OLD(g.child_reaped) && g.child_live == OLD(g.child_live) && g.reaps == OLD(g.reaps))
  ;

CONTRACT(process_kill)
int process_kill(pid_t process)
  REQ("C06/process_kill.own_unreaped_child", process > 0 && process == g.child_pid && g.child_live && !g.child_reaped)
  ASSIGNS(G_ERR, g.kill_calls, g.sig_log, g.nsig, g.plan_pos)
  ENS("C14/process_kill.error_ghost_sane", G_ERR_SANE)
  ENS("C07/process_kill.one_kill", g.kill_calls == OLD(g.kill_calls) + 1 && g.wait_calls == OLD(g.wait_calls))
  ENS("C07/process_kill.sends_sigkill_once", IMPLIES(RV == 0, g.nsig == OLD(g.nsig) + 1 && IMPLIES(OLD(g.nsig) < 4, g.sig_log[OLD(g.nsig)] == SIGKILL)))
  ENS("C07/process_kill.failure_sends_nothing", IMPLIES(RV != 0, RV == -g.e.err && RV < 0 && g.nsig == OLD(g.nsig)))
  ENS("C05/process_kill.ledger_unchanged", FD_LEDGER_UNCHANGED && g.child_pid == OLD(g.child_pid) && g.child_reaped == OLD(g.child_reaped) && g.child_live == OLD(g.child_live) && g.reaps == OLD(g.reaps))
  ;


#define DISP_ALL_DEFAULT_PUB ((~g.disp_default & 0xfffffffeUL & ~(1UL << SIGKILL) & ~(1UL << SIGSTOP)) == 0)
#define PS_PARENT (!g.in_child)
#define PS_HANDLES_MASK (MASK_OF(options.handle.in) | MASK_OF(options.handle.out) | MASK_OF(options.handle.err) | MASK_OF(options.handle.exit))

/* process_start, both sides of fork. Parent side (C04, C05, C06, C12): returns 1
   with a live child whose program was executed, or a negative error with no
   child left, nothing leaked and the caller's process state untouched. Child
   side: everything the started program is promised is asserted by the execvp
   contract of the OS layer (labels C03/exec.*, C10/exec.*, C11/exec.*,
   C12/exec.*); failures are reported through the error pipe (C04/child.*). */
#define GHOST_SANE (g.e.err >= 0 && g.e.err < 134 && g.e.first_errno >= 0 && g.e.first_errno < 134 && g.e.last_fault >= 0 && g.e.last_fault < 134 && g.e.faults >= 0 && g.e.faults <= 1000 && g.child_fate_errno >= 0 && g.child_fate_errno < 134 && g.nsig >= 0 && g.kill_calls >= 0)

CONTRACT(process_start)
int process_start(pid_t *process, const char *const *argv, struct process_options options)
  REQ_(process != NULL && !g.in_child && g.fork_stage == 0 && g.child_pid == 0 && !g.child_live)
  REQ("C06/process_start.handle_not_yet_started", *process == -1)
  REQ("C13/process_start.argv_wellformed", argv == NULL || argv[0] != NULL)
  REQ("C10/process_start.child_handles_are_open", IS_OPEN(options.handle.in) && IS_OPEN(options.handle.out) && IS_OPEN(options.handle.err) && IS_OPEN(options.handle.exit))
  ASSIGNS(*process, g, environ)
  ENS("C14/process_start.error_ghost_sane", G_ERR_SANE && g.eintr_run == 0 && g.child_fate_errno >= 0 && g.child_fate_errno < 134 && g.now == OLD(g.now) && g.in_fd == OLD(g.in_fd) && g.stream_pos == OLD(g.stream_pos))
  ENS("C04/process_start.side_of_fork", IMPLIES(g.in_child, gc.cfg_child_side) && IMPLIES(RV > 0, !gc.cfg_child_side))
  ENS("C11/process_start.fork_mode_child_descriptors", IMPLIES(g.in_child, (g.fds.open & PS_HANDLES_MASK & ~7u) == (OLD(g.fds.open) & PS_HANDLES_MASK & ~7u)))
  ENS("C04/process_start.success_has_no_failed_call", IMPLIES(RV >= 0, g.e.faults == OLD(g.e.faults)))
  ENS("C04/process_start.parent_gets_one_or_error", IMPLIES(PS_PARENT, RV == 1 || RV < 0))
  ENS("C04+C06+INV/process_start.success_is_live_child_that_executed", IMPLIES(PS_PARENT && RV == 1, *process == g.child_pid && *process > 0 && g.child_live && !g.child_reaped && g.reaps == OLD(g.reaps) && g.child_fate == FATE_EXECED))
  ENS("C04+C05+C06+INV/process_start.failure_leaves_no_child_and_no_pid", IMPLIES(PS_PARENT && RV < 0, *process == -1 && !g.child_live && (g.child_pid == 0 || g.child_reaped)))
  ENS("C04/process_start.failure_is_real_cause", IMPLIES(PS_PARENT && RV < 0 && OLD(g.e.faults) == 0, (g.e.faults > 0 && RV == -g.e.first_errno) || ((g.child_fate == FATE_FAILED_EARLY || g.child_fate == FATE_FAILED_LATE) && RV == -g.child_fate_errno)))
  ENS("C12/process_start.caller_state_untouched", IMPLIES(PS_PARENT, g.sigmask == OLD(g.sigmask) && g.disp_default == OLD(g.disp_default) && g.cwd_id == OLD(g.cwd_id) && environ == OLD(environ)))
  ENS("C05/process_start.parent_descriptors_as_before", IMPLIES(PS_PARENT, g.fds.open == OLD(g.fds.open) && g.fds.lib == OLD(g.fds.lib) && g.fds.cloexec == OLD(g.fds.cloexec) && g.fds.nonblock == OLD(g.fds.nonblock)))
  ENS("C06/process_start.sends_no_signal", g.nsig == OLD(g.nsig) && g.kill_calls == OLD(g.kill_calls))
  ENS("C04/process_start.child_returns_only_in_fork_mode", IMPLIES(g.in_child, RV == 0 && argv == NULL && !g.execd && g.child_reports == 0))
  ENS("C10/process_start.fork_mode_child_streams", IMPLIES(g.in_child, IS_OPEN(0) && IS_OPEN(1) && IS_OPEN(2) && g.fds.obj[0] == gc.want_obj[0] && g.fds.obj[1] == gc.want_obj[1] && g.fds.obj[2] == gc.want_obj[2]))
  ENS("C12/process_start.fork_mode_child_clean_signal_state", IMPLIES(g.in_child, g.sigmask == 0 && DISP_ALL_DEFAULT_PUB))
  ENS("C03/process_start.fork_mode_child_cwd", IMPLIES(g.in_child, g.cwd_id == gc.want_cwd_id))
  ENS("C03/process_start.fork_mode_child_environment_is_the_requested_live_vector", IMPLIES(g.in_child, environ != NULL && environ == g.env_ptr && g.env_a == gc.want_env_a && g.env_b == gc.want_env_b && g.last_freed_vec != (void *) environ))
  ;

#endif
