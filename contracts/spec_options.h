/* Specification of option validation (C13), transcribed from reproc.h
 * (:114-158 per-stream rules, :204-241 shorthands, :265-290 input / fork) and
 * from the property statement. Shares no code with options.c.
 *
 *   OPT_ALLOWED(o, argv0ok, argvnull)  the documentation allows the record
 *   OPT_REJECT(o, ...)                 the property lists it as "rejected up front"
 *   OPT_EFF_*(o)                       documented effective redirect type
 */
#ifndef VERIF_SPEC_OPTIONS_H
#define VERIF_SPEC_OPTIONS_H

#define RT_DEFAULT 0
#define RT_PIPE 1
#define RT_PARENT 2
#define RT_DISCARD 3
#define RT_STDOUT 4
#define RT_HANDLE 5
#define RT_FILE 6
#define RT_PATH 7

#define RD_T(r) ((unsigned) (r).type)
#define RD_SET(r) (RD_T(r) != 0 || (r).handle != 0 || (r).file != NULL || (r).path != NULL)
#define RD_IN_RANGE(r) (RD_T(r) <= 7u)
#define RD_NTARGETS(r) (((r).handle != 0) + ((r).file != NULL) + ((r).path != NULL))

/* "If `handle` is set, `type` must be unset or HANDLE and `file`, `path` unset" (and
   likewise for file, path): at most one target, and it agrees with the type */
#define RD_TARGET_AGREES(r)                                                    \
  (RD_NTARGETS(r) <= 1 &&                                                      \
   IMPLIES((r).handle != 0, RD_T(r) == RT_DEFAULT || RD_T(r) == RT_HANDLE) &&  \
   IMPLIES((r).file != NULL, RD_T(r) == RT_DEFAULT || RD_T(r) == RT_FILE) &&   \
   IMPLIES((r).path != NULL, RD_T(r) == RT_DEFAULT || RD_T(r) == RT_PATH))
/* a type that needs an operand has it */
#define RD_OPERAND_PRESENT(r)                                                  \
  (IMPLIES(RD_T(r) == RT_HANDLE, (r).handle != 0) &&                           \
   IMPLIES(RD_T(r) == RT_FILE, (r).file != NULL) &&                            \
   IMPLIES(RD_T(r) == RT_PATH, (r).path != NULL))
#define RD_OK(r, is_err)                                                       \
  (RD_TARGET_AGREES(r) && RD_OPERAND_PRESENT(r) &&                             \
   IMPLIES(RD_T(r) == RT_STDOUT, (is_err)))

/* shorthands */
#define SH_FILE_OK(o)                                                          \
  IMPLIES((o).redirect.file != NULL,                                           \
          !RD_SET((o).redirect.out) && !RD_SET((o).redirect.err) &&            \
              !(o).redirect.parent && !(o).redirect.discard &&                 \
              (o).redirect.path == NULL)
#define SH_PATH_OK(o)                                                          \
  IMPLIES((o).redirect.path != NULL,                                           \
          !RD_SET((o).redirect.out) && !RD_SET((o).redirect.err) &&            \
              !(o).redirect.parent && !(o).redirect.discard &&                 \
              (o).redirect.file == NULL)
/* documentation: parent and discard are mutually exclusive, always */
#define SH_PD_DOC_OK(o) (!((o).redirect.parent && (o).redirect.discard))
/* property: they conflict when they would compete for some unset stream */
#define SH_FALLS_BACK_IN(o) (!RD_SET((o).redirect.in))
#define SH_FALLS_BACK_OUT(o)                                                   \
  (!RD_SET((o).redirect.out) && (o).redirect.file == NULL && (o).redirect.path == NULL)
#define SH_FALLS_BACK_ERR(o)                                                   \
  (!RD_SET((o).redirect.err) && (o).redirect.file == NULL && (o).redirect.path == NULL)
#define SH_PD_COMPETE(o)                                                       \
  ((o).redirect.parent && (o).redirect.discard &&                              \
   (SH_FALLS_BACK_IN(o) || SH_FALLS_BACK_OUT(o) || SH_FALLS_BACK_ERR(o)))

/* documented effective type of each stream */
#define EFF_EXPLICIT(r)                                                        \
  (RD_T(r) != RT_DEFAULT ? RD_T(r)                                             \
   : (r).handle != 0     ? RT_HANDLE                                           \
   : (r).file != NULL    ? RT_FILE                                             \
   : (r).path != NULL    ? RT_PATH                                             \
                         : RT_DEFAULT)
#define EFF_SHORT(o, dflt)                                                     \
  ((o).redirect.parent ? RT_PARENT : (o).redirect.discard ? RT_DISCARD : (dflt))
#define OPT_EFF_IN(o)                                                          \
  (EFF_EXPLICIT((o).redirect.in) != RT_DEFAULT ? EFF_EXPLICIT((o).redirect.in) \
                                               : EFF_SHORT(o, RT_PIPE))
#define EFF_OUTERR(o, r, dflt)                                                 \
  (EFF_EXPLICIT(r) != RT_DEFAULT   ? EFF_EXPLICIT(r)                           \
   : (o).redirect.file != NULL     ? RT_FILE                                   \
   : (o).redirect.path != NULL     ? RT_PATH                                   \
                                   : EFF_SHORT(o, dflt))
#define OPT_EFF_OUT(o) EFF_OUTERR(o, (o).redirect.out, RT_PIPE)
#define OPT_EFF_ERR(o) EFF_OUTERR(o, (o).redirect.err, RT_PARENT)

#define OPT_TYPES_IN_RANGE(o)                                                  \
  (RD_IN_RANGE((o).redirect.in) && RD_IN_RANGE((o).redirect.out) &&            \
   RD_IN_RANGE((o).redirect.err))

#define OPT_INPUT_OK(o)                                                        \
  (IMPLIES((o).input.data != NULL, OPT_EFF_IN(o) == RT_PIPE) &&                \
   IMPLIES((o).input.size > 0, (o).input.data != NULL))
/* argvnull: argv == NULL; argv0ok: argv != NULL && argv[0] != NULL */
#define OPT_FORK_OK(o, argvnull, argv0ok) ((o).fork ? (argvnull) : (argv0ok))

#define OPT_STREAMS_OK(o)                                                      \
  (RD_OK((o).redirect.in, 0) && RD_OK((o).redirect.out, 0) &&                  \
   RD_OK((o).redirect.err, 1) && SH_FILE_OK(o) && SH_PATH_OK(o))

/* what the documentation allows */
#define OPT_ALLOWED(o, argvnull, argv0ok)                                      \
  (OPT_TYPES_IN_RANGE(o) && OPT_STREAMS_OK(o) && SH_PD_DOC_OK(o) &&            \
   OPT_INPUT_OK(o) && OPT_FORK_OK(o, argvnull, argv0ok))
/* what must be rejected up front (types in range) */
#define OPT_REJECT(o, argvnull, argv0ok)                                       \
  (OPT_TYPES_IN_RANGE(o) &&                                                    \
   (!OPT_STREAMS_OK(o) || SH_PD_COMPETE(o) || !OPT_INPUT_OK(o) ||              \
    !OPT_FORK_OK(o, argvnull, argv0ok)))

/* stop actions (C07/C15): all-noop means wait(DEADLINE), terminate(INFINITE) */
#define STOP_ALL_NOOP(s)                                                       \
  ((s).first.action == REPROC_STOP_NOOP && (s).second.action == REPROC_STOP_NOOP && \
   (s).third.action == REPROC_STOP_NOOP)
#define STOP_PARSED(n, s)                                                      \
  (STOP_ALL_NOOP(s)                                                            \
       ? ((n).first.action == REPROC_STOP_WAIT && (n).first.timeout == -2 &&   \
          (n).second.action == REPROC_STOP_TERMINATE && (n).second.timeout == -1 && \
          (n).third.action == REPROC_STOP_NOOP && (n).third.timeout == (s).third.timeout) \
       : ((n).first.action == (s).first.action && (n).first.timeout == (s).first.timeout && \
          (n).second.action == (s).second.action && (n).second.timeout == (s).second.timeout && \
          (n).third.action == (s).third.action && (n).third.timeout == (s).third.timeout))

#endif
