/* Native replay runtime: the harness, the real /repo functions and the OS layer
 * are compiled with gcc; nondet_*() pops the next scripted choice taken from
 * CBMC's counterexample; a refuted obligation shows up as a FAILED line. */
#include <stdbool.h>
#include <stdint.h>
#include <stdio.h>
#include <stdlib.h>
#include <string.h>

#define MAXS 100000
static struct { char fn[32]; long long v; } script[MAXS];
static int nscript, pos, exhausted, mismatches, nfailed;

void harness(void);

static void load(void)
{
  const char *p = getenv("VERIF_SCRIPT");
  if (!p) return;
  FILE *f = fopen(p, "r");
  if (!f) return;
  while (nscript < MAXS && fscanf(f, "%31s %lld", script[nscript].fn, &script[nscript].v) == 2)
    nscript++;
  fclose(f);
}

static long long pop(const char *fn)
{
  if (pos >= nscript) {
    exhausted++;
    /* after the scripted prefix: seeded pseudo-random search (VERIF_SEED) */
    static unsigned long long s;
    if (!s) { const char *e = getenv("VERIF_SEED"); s = e ? strtoull(e, 0, 10) * 2654435761u + 88172645463325252ull : 0; }
    if (!s) return 0;
    s ^= s << 13; s ^= s >> 7; s ^= s << 17;
    unsigned long long r = s;
    switch (r & 7) { case 0: return 0; case 1: return 1; case 2: return -1; case 3: return (long long)(r >> 8) % 40; default: return (long long)(r >> 8); }
  }
  if (strcmp(script[pos].fn, fn) != 0) mismatches++;
  return script[pos++].v;
}

int nondet_int(void) { return (int) pop("nondet_int"); }
unsigned nondet_uint(void) { return (unsigned) pop("nondet_uint"); }
bool nondet_bool(void) { return pop("nondet_bool") & 1; }
long nondet_long(void) { return (long) pop("nondet_long"); }
unsigned long nondet_ulong(void) { return (unsigned long) pop("nondet_ulong"); }
short nondet_short(void) { return (short) pop("nondet_short"); }
unsigned char nondet_uchar(void) { return (unsigned char) pop("nondet_uchar"); }
void *nondet_ptr(void) { return (void *) (intptr_t) pop("nondet_ptr"); }

static void finish(const char *why, int code)
{
  printf("END %s script_used=%d/%d exhausted=%d mismatches=%d failed=%d\n", why, pos, nscript,
         exhausted, mismatches, nfailed);
  fflush(stdout);
  _Exit(code);
}

void verif_assert_fail(const char *label, const char *file, int line)
{
  nfailed++;
  printf("FAILED %s at %s:%d\n", label, file, line);
  fflush(stdout);
}

void verif_assume_fail(const char *what, const char *file, int line)
{
  printf("ASSUME-NOT-MET %s at %s:%d\n", what, file, line);
  finish("assumption-not-met", nfailed ? 10 : 3);
}

void verif_stop(const char *why) { finish(why, nfailed ? 10 : 0); }

/* harness objects registered for same_object queries are few: the start-up input */
extern struct ghost_peek { int dummy; } verif_unused;
bool verif_same_object(const void *a, const void *b)
{
  /* native approximation: within 1 MiB above b (harness buffers are small) */
  return (const char *) a >= (const char *) b && (const char *) a <= (const char *) b + (1 << 20);
}

void verif_fill(void *p, size_t n) { memset(p, 0x5a, n); }

int main(void)
{
  load();
  harness();
  finish("returned", nfailed ? 10 : 0);
  return 0;
}
